import numpy as np, pandas as pd, warnings, itertools, time
warnings.simplefilter('ignore')
from multiprocessing import Pool
from fairlearn.reductions import *
rowtypes=[(g,l,c) for g in 'ab' for l in (0,1) for c in 'uv']
def datasets(n):
    for ms in itertools.combinations_with_replacement(rowtypes,n):
        if len({g for g,_,_ in ms})==2 and len({l for _,l,_ in ms})==2: yield ms
def work(ms):
    out=[]; n=len(ms); X=np.zeros((n,1)); a=np.array([r[0] for r in ms]); y=np.array([r[1] for r in ms]); c=np.array([r[2] for r in ms])
    HP=[np.array(b,float) for b in itertools.product([0,1],repeat=n)]
    for Mc in [DemographicParity,EqualizedOdds,TruePositiveRateParity,FalsePositiveRateParity,ErrorRateParity]:
      for bound in [dict(difference_bound=0.1),dict(ratio_bound=0.8),dict(ratio_bound=1.0,ratio_bound_slack=0.05)]:
        for cf in [None] if Mc in (TruePositiveRateParity,FalsePositiveRateParity) else [None,c]:
          m=Mc(**bound); kw={} if cf is None else {'control_features':cf}
          m.load_data(X,y,sensitive_features=a,**kw)
          obj=ErrorRate(); obj.load_data(X,y,sensitive_features=a)
          idx=m.index; k=len(idx)
          G=np.array([m.gamma(lambda X,hp=hp:hp).values for hp in HP])  # (2^n,k)
          E=np.array([obj.gamma(lambda X,hp=hp:hp).iloc[0] for hp in HP])
          g0=G[0]
          # unit identity
          for j in range(k):
              lam=pd.Series(0.0,index=idx); lam.iloc[j]=1.0
              w=m.signed_weights(lam).values
              for i in range(n):
                  hp=np.zeros(n); hp[i]=1
                  hi=int(''.join(str(int(b)) for b in hp),2)
                  lhs=G[hi][j]-g0[j]; rhs=-w[i]/n
                  if abs(lhs-rhs)>1e-12: out.append(('ID',Mc.__name__,bound,cf is not None,ms,j,i,lhs,rhs))
          # consequence + projection on lambda grid with <=2 nonzeros
          vals=[0.5,2.0]
          lams=[]
          for j in range(k):
              for v in vals:
                  l=np.zeros(k); l[j]=v; lams.append(l)
          for j1,j2 in itertools.combinations(range(k),2):
              l=np.zeros(k); l[j1]=0.5; l[j2]=2.0; lams.append(l)
          wobj=obj.signed_weights().values
          for l in lams:
              lam=pd.Series(l,index=idx)
              W=wobj+m.signed_weights(lam).values
              hstar=(W>0).astype(float); hi=int(''.join(str(int(b)) for b in hstar),2)
              L=E+G@l
              if L[hi]>L.min()+1e-12: out.append(('BR',Mc.__name__,bound,cf is not None,ms,l.tolist(),L[hi],L.min()))
              pl=m.project_lambda(lam.copy())
              plv=pl.reindex(idx).values
              if (plv<-1e-15).any(): out.append(('PNEG',Mc.__name__,bound,ms,l.tolist()))
              b=m.bound().reindex(idx).values
              L1=E+(G-b)@l; L2=E+(G-b)@plv
              if (L2<L1-1e-12).any(): out.append(('PROJ',Mc.__name__,bound,cf is not None,ms,l.tolist(),float((L1-L2).max())))
    return out
if __name__=='__main__':
    D=[d for n in (3,4) for d in datasets(n)]
    print(len(D)); t=time.time(); bad=[]
    with Pool(15) as pool:
        for r in pool.imap_unordered(work,D,chunksize=2): bad+=r
    from collections import Counter
    print('bad',len(bad),'time',time.time()-t,Counter((b[0],b[1]) for b in bad))
    for b in bad[:10]: print(b)
