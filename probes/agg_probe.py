import numpy as np, pandas as pd, warnings, itertools, time, math
warnings.simplefilter('ignore')
from multiprocessing import Pool
from fairlearn.metrics import MetricFrame
nan=float('nan')
def mk_lookup(table):
    def lookup(y_true,y_pred): return table[frozenset(int(i) for i in y_true)]
    return lookup
def fmin(vs):
    vs=[v for v in vs if not math.isnan(v)]; return min(vs) if vs else nan
def fmax(vs):
    vs=[v for v in vs if not math.isnan(v)]; return max(vs) if vs else nan
def div(a,b):
    if math.isnan(a) or math.isnan(b): return nan
    if b==0: return nan if a==0 else math.copysign(math.inf,a)
    return a/b
def r1(r):
    if math.isnan(r): return nan
    inv = (math.inf if r==0 else 1/r) if not math.isinf(r) else 0.0
    return min(r,inv)
def ref(groups,overall):
    g=list(groups)
    out={}
    out['min']=fmin(g); out['max']=fmax(g)
    out['diff_b']=out['max']-out['min'] if not math.isnan(out['max']) else nan
    out['diff_o']=fmax([abs(v-overall) for v in g if not math.isnan(v)])
    out['ratio_b']=div(out['min'],out['max'])
    out['ratio_o']=fmin([r1(div(v,overall)) for v in g])
    return out
def eq(a,b): 
    a=float(a); b=float(b)
    return (math.isnan(a) and math.isnan(b)) or a==b or abs(a-b)<=1e-12*max(1,abs(a),abs(b))
A=[0.0,0.5,1.0,2.0,-1.0,-0.5]
def work(vals):
    *gv,ov=vals; out=[]
    G=len(gv); names=['a','b','c'][:G]
    # rows: one row per group, ids 0..G-1 ; second feature to create an empty combo
    ids=np.arange(G); table={frozenset([i]):gv[i] for i in range(G)}; table[frozenset(range(G))]=ov
    if G==1: table[frozenset([0])]=ov; gv=[ov]
    for form in ['callable','dict']:
        fn=mk_lookup(table); metrics=fn if form=='callable' else {'m':fn}
        mf=MetricFrame(metrics=metrics,y_true=ids,y_pred=ids,sensitive_features=names)
        R=ref(gv,ov)
        get=lambda x: x if form=='callable' else x['m']
        for err in ['raise','coerce']:
            obs={'min':get(mf.group_min(errors=err)),'max':get(mf.group_max(errors=err)),
                 'diff_b':get(mf.difference(method='between_groups',errors=err)),'diff_o':get(mf.difference(method='to_overall',errors=err)),
                 'ratio_b':get(mf.ratio(method='between_groups',errors=err)),'ratio_o':get(mf.ratio(method='to_overall',errors=err))}
            for k in R:
                if not eq(obs[k],R[k]): out.append((k,form,err,gv,ov,float(obs[k]),R[k]))
    return out
if __name__=='__main__':
    cases=[v for G in (1,2,3) for v in itertools.product(A,repeat=G+1)]
    print(len(cases)); t=time.time(); bad=[]
    with Pool(15) as pool:
        for r in pool.imap_unordered(work,cases,chunksize=8): bad+=r
    from collections import Counter
    print('bad',len(bad),'time',time.time()-t, Counter(b[0] for b in bad))
    neg=[b for b in bad if not (b[0]=='ratio_o')]
    for b in neg[:10]: print('NON-ratio_o',b)
    # classify ratio_o mismatches: explained by alt formula?
    def alt(r): 
        if math.isnan(r): return nan
        return 1/r if r>1 else r
    unexplained=[]
    for b in bad:
        if b[0]!='ratio_o': continue
        k,form,err,gv,ov,o,e=b
        a=fmin([alt(div(v,ov)) for v in gv])
        if not eq(a,o): unexplained.append(b)
    print('ratio_o mismatches',sum(1 for b in bad if b[0]=='ratio_o'),'unexplained by alt formula',len(unexplained))
    for b in unexplained[:10]: print(b)
    for b in [x for x in bad if x[0]=='ratio_o'][:5]: print(b)
