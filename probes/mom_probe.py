import numpy as np, pandas as pd, warnings, itertools
warnings.simplefilter('ignore')
from fairlearn.reductions import *
rng=np.random.RandomState(0)
n=9
X=np.zeros((n,1))
y=np.array([0,1,1,0,1,0,1,1,0]); a=np.array(list('aabbabcca')); c=np.array(list('uuvvuvuvu'))
h=rng.rand(n)
def ref_gamma(name,ratio,y,a,c,h):
    out={}
    u = np.where(y==1,1-h,h) if name=='ErrorRateParity' else h   # error indicator for soft pred: |y-h|
    strata=[None] if c is None else sorted(set(c))
    for s in strata:
        ms = np.ones(len(y),bool) if s is None else (c==s)
        if name in('DemographicParity','ErrorRateParity'): evs=[('all',ms)]
        elif name=='TruePositiveRateParity': evs=[('label=1',ms&(y==1))]
        elif name=='FalsePositiveRateParity': evs=[('label=0',ms&(y==0))]
        else: evs=[('label=0',ms&(y==0)),('label=1',ms&(y==1))]
        for en,me in evs:
            if me.sum()==0: continue
            ename = en if s is None else 'control=%s,%s'%(s,en)
            for g in sorted(set(a[me])):
                mg=me&(a==g)
                out[('+',ename,g)] = ratio*u[mg].mean()-u[me].mean()
                out[('-',ename,g)] = ratio*u[me].mean()-u[mg].mean()
    return out
for M in [DemographicParity,TruePositiveRateParity,FalsePositiveRateParity,EqualizedOdds,ErrorRateParity]:
  for ratio in [None,0.8]:
    for cf in [None,c]:
      m=M(ratio_bound=ratio) if ratio else M(difference_bound=0.05)
      kw={} if cf is None else {'control_features':cf}
      m.load_data(X,y,sensitive_features=a,**kw)
      g=m.gamma(lambda X:h)
      ref=ref_gamma(M.__name__,ratio or 1.0,y,a,cf,h)
      got={k:v for k,v in g.items()}
      ok = set(got)==set(ref) and all(abs(got[k]-ref[k])<1e-12 for k in ref)
      print(M.__name__,ratio,cf is not None,'OK' if ok else 'MISMATCH', '' if ok else (sorted(set(got)^set(ref))[:4], [(k,got[k],ref[k]) for k in ref if k in got and abs(got[k]-ref[k])>1e-12][:3]))
      # C07 identity
      lam=pd.Series(rng.rand(len(m.index)),index=m.index)
      h2=rng.rand(n)
      lhs=lam.dot(m.gamma(lambda X:h))-lam.dot(m.gamma(lambda X:h2))
      w=m.signed_weights(lam)
      rhs=-(w*(h-h2)).sum()/n
      print('   identity', abs(lhs-rhs)<1e-12, lhs, rhs)
