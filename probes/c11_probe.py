import numpy as np, pandas as pd, warnings, itertools, time, math
warnings.simplefilter('ignore')
from multiprocessing import Pool
from fairlearn.metrics import *
rowtypes=[(y,p,g) for y in (0,1) for p in (0,1) for g in 'ab']
FN=[true_positive_rate,false_positive_rate,true_negative_rate,false_negative_rate,selection_rate,mean_prediction]
FM=[demographic_parity_difference,demographic_parity_ratio,equalized_odds_difference,equal_opportunity_ratio]
def eq(a,b):
    a=np.asarray(a,float); b=np.asarray(b,float)
    return a.shape==b.shape and np.allclose(a,b,rtol=1e-12,atol=1e-12,equal_nan=True)
def work(ms):
    out=[]; n=len(ms)
    y=np.array([r[0] for r in ms]); p=np.array([r[1] for r in ms]); g=np.array([r[2] for r in ms])
    for w in itertools.product([1,2,3],repeat=n):
        w=np.array(w); rep=np.repeat(np.arange(n),w)
        yr,pr,gr=y[rep],p[rep],g[rep]
        for f in FN:
            a=f(y,p,sample_weight=w); b=f(yr,pr); c=f(y,p,sample_weight=3.7*w)
            if not (eq(a,b) and eq(a,c)) or np.ndim(a)!=0: out.append(('FN',f.__name__,ms,w.tolist(),repr(a),repr(b)))
        for f in FM:
            a=f(y,p,sensitive_features=g,sample_weight=w); b=f(yr,pr,sensitive_features=gr)
            if not eq(a,b): out.append(('FM',f.__name__,ms,w.tolist(),float(a),float(b)))
        mfa=MetricFrame(metrics={'sr':selection_rate,'tpr':true_positive_rate},y_true=y,y_pred=p,sensitive_features=g,sample_params={'sr':{'sample_weight':w},'tpr':{'sample_weight':w}})
        mfb=MetricFrame(metrics={'sr':selection_rate,'tpr':true_positive_rate},y_true=yr,y_pred=pr,sensitive_features=gr)
        try:
            if not (eq(mfa.by_group.values.astype(float),mfb.by_group.values.astype(float)) and eq(mfa.overall.values.astype(float),mfb.overall.values.astype(float))): out.append(('MF',ms,w.tolist()))
        except Exception as e: out.append(('MFEXC',ms,w.tolist(),repr(e)[:80], mfa.by_group.values.tolist()))
    return out
if __name__=='__main__':
    D=[d for n in (2,3) for d in itertools.combinations_with_replacement(rowtypes,n)]
    print(len(D)); t=time.time(); bad=[]
    with Pool(15) as pool:
        for r in pool.imap_unordered(work,D,chunksize=2): bad+=r
    from collections import Counter
    print('bad',len(bad),'time',time.time()-t,Counter((b[0],b[1]) if b[0] in('FN','FM') else b[0] for b in bad))
    seen=set()
    for b in bad:
        k=(b[0],b[1]) if b[0] in('FN','FM') else b[0]
        if k not in seen: seen.add(k); print(b)
