import numpy as np, pandas as pd, warnings, itertools, time, sys
warnings.simplefilter('ignore')
from sklearn.base import BaseEstimator, ClassifierMixin
from fairlearn.postprocessing import ThresholdOptimizer
class Score(ClassifierMixin, BaseEstimator):
    def fit(self,X,y,**k): self.fitted_=True; return self
    def predict(self,X): return np.asarray(X)[:,0].astype(float)
EST=Score().fit(None,None)
rows=[(l,s) for l in (0,1) for s in (1,2,3)]
def groups(maxn):
    for n in range(2,maxn+1):
        for ms in itertools.combinations_with_replacement(rows,n):
            ls={l for l,_ in ms}
            if ls=={0,1}: yield ms
G=list(groups(3)); print(len(G))
def metric(name,y,p):
    y=np.asarray(y); p=np.asarray(p)
    if name=='selection_rate': return p.mean()
    if name=='false_positive_rate': return p[y==0].mean()
    if name=='true_positive_rate': return p[y==1].mean()
    if name=='false_negative_rate': return (1-p[y==1]).mean()
    if name=='true_negative_rate': return (1-p[y==0]).mean()
cons={'demographic_parity':'selection_rate','false_positive_rate_parity':'false_positive_rate','true_positive_rate_parity':'true_positive_rate','false_negative_rate_parity':'false_negative_rate','true_negative_rate_parity':'true_negative_rate'}
bad=0; tot=0; t=time.time()
for ga,gb in itertools.combinations_with_replacement(G,2):
  y=[l for l,_ in ga]+[l for l,_ in gb]; s=[float(x) for _,x in ga]+[float(x) for _,x in gb]; a=['a']*len(ga)+['b']*len(gb)
  X=np.array(s).reshape(-1,1)
  for c,flip,gs in itertools.product(list(cons)+['equalized_odds'],[False,True],[1,2,3,7]):
    for obj in (['accuracy_score','balanced_accuracy_score'] if c=='equalized_odds' else ['accuracy_score','selection_rate','true_positive_rate','true_negative_rate','balanced_accuracy_score']):
      tot+=1
      try:
        t_=ThresholdOptimizer(estimator=EST,constraints=c,objective=obj,prefit=True,predict_method='predict',grid_size=gs,flip=flip).fit(X,y,sensitive_features=a)
        p=t_._pmf_predict(X,sensitive_features=a)[:,1]
      except Exception as e:
        bad+=1
        if bad<15: print('EXC',c,obj,flip,gs,y,s,a,repr(e)[:100])
        continue
      ya=np.array(y); aa=np.array(a)
      names=['false_positive_rate','true_positive_rate'] if c=='equalized_odds' else [cons[c]]
      for nm in names:
        va=metric(nm,ya[aa=='a'],p[aa=='a']); vb=metric(nm,ya[aa=='b'],p[aa=='b'])
        if not (abs(va-vb)<1e-9) or np.isnan(p).any() or (p<-1e-12).any() or (p>1+1e-12).any():
          bad+=1
          if bad<15: print('BAD',c,obj,flip,gs,nm,y,s,a,va,vb,p)
print('tot',tot,'bad',bad,'time',time.time()-t)
