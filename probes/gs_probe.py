import numpy as np, pandas as pd, warnings, itertools, time
warnings.simplefilter('ignore')
from sklearn.base import BaseEstimator
from fairlearn.reductions import *
class Exact(BaseEstimator):
    def fit(self,X,y,sample_weight=None):
        x=np.asarray(X)[:,0]; y=np.asarray(y); w=np.asarray(sample_weight,dtype=float)
        self.table_={v:(1 if w[(x==v)&(y==1)].sum()>w[(x==v)&(y==0)].sum() else 0) for v in np.unique(x)}
        return self
    def predict(self,X): return np.array([self.table_.get(v,0) for v in np.asarray(X)[:,0]])
X=np.array([[0],[1],[0],[1],[0],[1],[1],[0],[2]],float); y=np.array([0,1,1,0,1,0,1,0,1])
bad=0;tot=0;t=time.time()
for groups in ['aabbaabba','aabbccabc','abcdabcdd']:
  a=np.array(list(groups))
  for Mc in [DemographicParity,EqualizedOdds,TruePositiveRateParity]:
    for gsz in [2,3,5,8,13,21,34,60]:
      for lim in [0.5,2.0,3.7]:
        gs=GridSearch(Exact(),Mc(),grid_size=gsz,grid_limit=lim)
        gs.fit(X,y,sensitive_features=a); tot+=1
        L=gs.lambda_vecs_
        cols=[tuple(np.round(L[c].values,12)) for c in L.columns]
        ok = L.shape[1]==gsz and len(set(cols))==gsz and (L.values>=-1e-12).all() and (np.abs(L.values).sum(axis=0)<=lim+1e-9).all() and not np.isnan(L.values).any()
        if not ok:
            bad+=1; print('BAD',groups,Mc.__name__,gsz,lim,L.shape,len(set(cols)),np.abs(L.values).sum(axis=0).max())
print(tot,bad,time.time()-t)
yr=np.array([0,.5,1,.2,.7,.1,.9,.3,.6])
class ExactReg(BaseEstimator):
    def fit(self,X,y,sample_weight=None):
        self.m_=float(np.average(y,weights=sample_weight)); return self
    def predict(self,X): return np.full(len(X),self.m_)
for groups in ['aabbaabba','aabbccabc']:
  for gsz in [2,3,5,8,13,21]:
    gs=GridSearch(ExactReg(),BoundedGroupLoss(SquareLoss(0,1)),grid_size=gsz,grid_limit=2.0)
    try:
        gs.fit(X,yr,sensitive_features=np.array(list(groups))); L=gs.lambda_vecs_
        cols=[tuple(np.round(L[c].values,12)) for c in L.columns]
        print('BGL',groups,gsz,L.shape,len(set(cols)),np.abs(L.values).sum(axis=0).round(3).tolist()[:4], gs.best_idx_)
    except Exception as e: print('BGL exc',groups,gsz,repr(e)[:100])
