import numpy as np, pandas as pd, warnings, itertools
warnings.simplefilter('ignore')
from sklearn.base import BaseEstimator
from fairlearn.reductions import *
class ExactReg(BaseEstimator):
    def fit(self,X,y,sample_weight=None):
        x=np.asarray(X)[:,0]; y=np.asarray(y,dtype=float); w=np.asarray(sample_weight,dtype=float)
        self.table_={v: float(np.sum(w[x==v]*y[x==v])/np.sum(w[x==v])) if np.sum(w[x==v])>0 else 0.0 for v in np.unique(x)}
        return self
    def predict(self,X): return np.array([self.table_.get(v,0.) for v in np.asarray(X)[:,0]])
rng=np.random.RandomState(1)
found=0
for trial in range(200):
    n=6
    X=rng.randint(0,2,size=(n,1)); y=rng.choice([0,0.5,1],size=n); a=rng.choice(['a','b'],size=n)
    if len(set(a))<2: continue
    for lp in [False,True]:
        eg=ExponentiatedGradient(ExactReg(),BoundedGroupLoss(SquareLoss(0,1),upper_bound=0.1),eps=0.2,max_iter=12,run_linprog_step=lp)
        try: eg.fit(X,y,sensitive_features=a)
        except Exception as e: print('exc',e); continue
        idx=list(eg.weights_.index)
        if idx!=sorted(idx):
            found+=1
            if found<4:
                print(trial,lp,eg.weights_.to_dict())
                pm=eg._pmf_predict(X); print(pm.round(3).values.tolist()[:2])
                print(eg.predict(X,random_state=0)[:3])
print('found',found)
