import sys, types, numpy as np, torch, warnings
warnings.simplefilter('ignore')
class T(torch.Tensor):
    def numpy(self): return torch.Tensor.numpy(self.detach().as_subclass(torch.Tensor))
def wrap(t): return t.as_subclass(T)
tf=types.ModuleType('tensorflow'); keras=types.ModuleType('keras')
class GradientTape:
    def __init__(self,persistent=False): pass
    def __enter__(self): return self
    def __exit__(self,*a): return False
    def gradient(self,loss,vars_):
        gs=torch.autograd.grad(loss,list(vars_),retain_graph=True,allow_unused=True)
        return [wrap(g) if g is not None else None for g in gs]
tf.GradientTape=GradientTape
tf.concat=lambda ts,axis: wrap(torch.cat([torch.as_tensor(np.asarray(t),dtype=torch.float32) if not isinstance(t,torch.Tensor) else t for t in ts],dim=axis))
tf.norm=lambda t: torch.norm(t)
tf.reduce_sum=lambda t: torch.sum(t)
tf.multiply=lambda a,b: a*b
tf.random=types.SimpleNamespace(set_seed=lambda s: torch.manual_seed(int(s*2**31)))
class Model:
    def __init__(self): pass
    def __call__(self,x,training=False):
        if not isinstance(x,torch.Tensor): x=torch.as_tensor(np.asarray(x),dtype=torch.float32)
        return wrap(self.call(x))
    @property
    def trainable_variables(self): return list(self._params())
keras.Model=Model
class Dense:
    def __init__(self,units,kernel_initializer=None,bias_initializer=None): self.units=units; self.W=None
    def __call__(self,x):
        if self.W is None:
            self.W=torch.nn.Parameter(torch.empty(x.shape[1],self.units)); torch.nn.init.xavier_normal_(self.W); self.b=torch.nn.Parameter(torch.zeros(self.units))
        return x@self.W+self.b
keras.layers=types.SimpleNamespace(Dense=Dense)
keras.initializers=types.SimpleNamespace(GlorotNormal=lambda: None)
keras.activations=types.SimpleNamespace(deserialize=lambda s: {'sigmoid':torch.sigmoid,'softmax':lambda x: torch.softmax(x,1),'relu':torch.relu}[s])
def _params(self):
    for l in self.layers_:
        if isinstance(l,Dense) and l.W is not None: yield l.W; yield l.b
Model._params=_params
class Optimizer: pass
class SGD(Optimizer):
    def __init__(self,learning_rate): self.lr=learning_rate
    def apply_gradients(self,gv):
        with torch.no_grad():
            for g,v in gv: v -= self.lr*g.as_subclass(torch.Tensor)
keras.optimizers=types.SimpleNamespace(Optimizer=Optimizer,SGD=SGD,Adam=SGD)
def _t(a): return a if isinstance(a,torch.Tensor) else torch.as_tensor(np.asarray(a),dtype=torch.float32)
class BCE:
    def __init__(self,from_logits=False): pass
    def __call__(self,y,yh): return wrap(torch.nn.functional.binary_cross_entropy(yh.as_subclass(torch.Tensor),_t(y)))
class CCE:
    def __init__(self,from_logits=False): pass
    def __call__(self,y,yh): return wrap(-( _t(y)*torch.log(yh.as_subclass(torch.Tensor).clamp_min(1e-7))).sum(1).mean())
class MSE:
    def __call__(self,y,yh): return wrap(((yh.as_subclass(torch.Tensor)-_t(y))**2).mean())
keras.losses=types.SimpleNamespace(BinaryCrossentropy=BCE,CategoricalCrossentropy=CCE,MeanSquaredError=MSE)
sys.modules['tensorflow']=tf; sys.modules['keras']=keras
from fairlearn.adversarial import AdversarialFairnessClassifier
X=np.array([[0.,1],[1,0],[1,1],[0,0],[2,1],[1,2]]); y=np.array([0,1,1,0,1,0]); A=np.array(['a','b','a','b','a','b'])
e=AdversarialFairnessClassifier(backend='tensorflow',predictor_model=[3,'relu'],adversary_model=[2],predictor_optimizer='SGD',adversary_optimizer='SGD',learning_rate=0.1,batch_size=3,epochs=1,random_state=0)
e.fit(X,y,sensitive_features=A)
print(type(e.backendEngine_).__name__, e.n_iter_, [tuple(v.shape) for v in e.backendEngine_.predictor_model.trainable_variables])
print(e.predict(X))
