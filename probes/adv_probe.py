import numpy as np, warnings, torch, time
warnings.simplefilter('ignore')
from fairlearn.adversarial import AdversarialFairnessClassifier, AdversarialFairnessRegressor
from fairlearn.adversarial._adversarial_mitigation import _AdversarialFairness
from fairlearn.adversarial._pytorch_engine import PytorchEngine
X=np.array([[0.,1],[1,0],[1,1],[0,0],[2,1],[1,2],[2,2]]); y=np.array([0,1,1,0,1,0,1]); A=np.array(['a','b','a','b','a','b','a'])
log=[]
class Spy(PytorchEngine):
    def train_step(self,X,Y,A):
        log.append(('step',X.shape[0],X[:,0].tolist()))
        return super().train_step(X,Y,A)
def cb(est,step,**kw):
    log.append(('cb',step)); return step==STOP
for bs,ep,mi,STOP in [(3,2,-1,None),(3,2,4,None),(-1,2,-1,None),(4,-1,5,None),(3,3,-1,4),(7,1,1,None),(10,1,-1,None)]:
    log.clear()
    e=AdversarialFairnessClassifier(backend=Spy,predictor_model=[2],adversary_model=[2],predictor_optimizer='SGD',adversary_optimizer='SGD',learning_rate=0.1,batch_size=bs,epochs=ep,random_state=0,callbacks=cb)
    e.max_iter=mi
    e.fit(X,y,sensitive_features=A)
    print(bs,ep,mi,STOP,'n_iter',e.n_iter_,[l if l[0]=='cb' else (l[1],l[2][0]) for l in log])
# partial_fit equivalence
def params(e): return [p.detach().clone() for p in e.backendEngine_.predictor_model.parameters()]+[p.detach().clone() for p in e.backendEngine_.adversary_model.parameters()]
mk=lambda **k: AdversarialFairnessClassifier(backend='torch',predictor_model=[2],adversary_model=[2],predictor_optimizer='SGD',adversary_optimizer='SGD',learning_rate=0.1,random_state=0,**k)
e1=mk(batch_size=3,epochs=2); e1.fit(X,y,sensitive_features=A)
e2=mk()
for ep in range(2):
    for s in [slice(0,3),slice(3,6),slice(6,7)]:
        e2.partial_fit(X[s],y[s],sensitive_features=A[s])
print('fit==partial', all(torch.allclose(a,b) for a,b in zip(params(e1),params(e2))), [ (a-b).abs().max().item() for a,b in zip(params(e1),params(e2))])
# strings labels
ys=np.array(['no','yes','yes','no','yes','no','yes'])
e=mk(batch_size=3,epochs=1); e.fit(X,ys,sensitive_features=A); print(e.predict(X), e._raw_predict(X).ravel().round(3), e.classes_)
ym=np.array([0,1,2,0,1,2,1])
e=mk(batch_size=3,epochs=1); e.fit(X,ym,sensitive_features=A); print(e.predict(X), e._raw_predict(X).round(2).tolist()[:2])
r=AdversarialFairnessRegressor(backend='torch',predictor_model=[2],adversary_model=[2],predictor_optimizer='SGD',adversary_optimizer='SGD',learning_rate=0.1,random_state=0,batch_size=3)
r.fit(X,y*0.37,sensitive_features=A); print(r.predict(X)[:3], r._raw_predict(X).ravel()[:3])
