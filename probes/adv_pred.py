import numpy as np, warnings, torch, pickle
warnings.simplefilter('ignore')
from sklearn.base import clone
from fairlearn.adversarial import AdversarialFairnessClassifier, AdversarialFairnessRegressor
class Pass(torch.nn.Module):
    def __init__(self,k): super().__init__(); self.b=torch.nn.Parameter(torch.zeros(1)); self.k=k
    def forward(self,x): return x[:,:self.k]+self.b
def mk(k,**kw): return AdversarialFairnessClassifier(backend='torch',predictor_model=Pass(k),adversary_model=[2],predictor_optimizer='SGD',adversary_optimizer='SGD',learning_rate=0.0,batch_size=-1,epochs=1,random_state=0,**kw)
eps=2**-20
X=np.array([[0.01],[0.25],[0.5-eps],[0.5],[0.5+eps],[0.99]]); A=np.array(['a','b','a','b','a','b'])
for y in [np.array([0,1,0,1,0,1]),np.array([-1,1,-1,1,-1,1]),np.array([2,5,2,5,2,5]),np.array(['no','yes','no','yes','no','yes'])]:
    e=mk(1); e.fit(X,y,sensitive_features=A); print(y[:2], e.predict(X), e._raw_predict(X).ravel())
X3=np.array([[.1,.7,.2],[.5,.2,.3],[.2,.3,.5],[.9,.05,.05],[.3,.3,.4],[.02,.96,.02]])
for y in [np.array([0,1,2,0,1,2]),np.array(['x','y','z','x','y','z'])]:
    e=mk(3); e.fit(X3,y,sensitive_features=A); print(e.predict(X3))
# clone/pickle on list-model estimator
e=AdversarialFairnessClassifier(backend='torch',predictor_model=[2],adversary_model=[2],predictor_optimizer='SGD',adversary_optimizer='SGD',learning_rate=0.1,batch_size=3,epochs=1,random_state=0)
e.fit(X3,np.array([0,1,0,1,0,1]),sensitive_features=A)
c=clone(e); print('clone fitted?', hasattr(c,'_is_setup'), c.get_params()['predictor_model'])
try:
    p=pickle.loads(pickle.dumps(e)); print('pickle ok', np.array_equal(p.predict(X3),e.predict(X3)))
except Exception as ex: print('pickle exc',repr(ex)[:120])
