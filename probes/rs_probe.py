import numpy as np, pandas as pd, warnings
warnings.simplefilter('ignore')
from sklearn.utils import check_random_state
class Scripted(np.random.RandomState):
    def __init__(self, script, default=0.5):
        super().__init__(0); self.script=list(script); self.default=default; self.calls=[]
    def _u(self,n):
        out=[]
        for _ in range(n): out.append(self.script.pop(0) if self.script else self.default)
        return np.array(out)
    def rand(self,*shape):
        self.calls.append(('rand',shape)); n=int(np.prod(shape)) if shape else 1
        r=self._u(n); return r.reshape(shape) if shape else float(r[0])
    def random_sample(self,size=None):
        self.calls.append(('random_sample',size)); 
        if size is None: return float(self._u(1)[0])
        return self._u(int(np.prod(size))).reshape(size)
    random=random_sample
    def choice(self,a,size=None,replace=True,p=None):
        self.calls.append(('choice',len(a) if hasattr(a,'__len__') else a))
        a_=np.arange(a) if np.isscalar(a) else np.asarray(a)
        p_=np.full(len(a_),1/len(a_)) if p is None else np.asarray(p,float)
        cdf=p_.cumsum(); cdf/=cdf[-1]
        u=self._u(1 if size is None else int(np.prod(size)))
        idx=cdf.searchsorted(u,side='right')
        return a_[idx[0]] if size is None else a_[idx].reshape(size)
r=Scripted([0.1,0.9])
print(check_random_state(r) is r, r.rand(3), r.choice([5,6,7],p=[.2,.3,.5]))
# pandas sample interception
calls=[]
orig=pd.DataFrame.sample
def fake(self,*a,**k):
    calls.append(k); idx=[0,0,2,1][:len(self)]
    return self.iloc[idx].reset_index(drop=True)
pd.DataFrame.sample=fake
from fairlearn.metrics import MetricFrame, count, selection_rate
mf=MetricFrame(metrics={'c':count,'s':selection_rate},y_true=[0,1,1,0],y_pred=[1,1,0,0],sensitive_features=['a','a','b','b'],n_boot=2,ci_quantiles=[0.5],random_state=0)
pd.DataFrame.sample=orig
print(len(calls), calls[0]); print(mf.by_group_ci[0]); print(mf.overall_ci[0])
