import numpy as np, pandas as pd, warnings, itertools, time
warnings.simplefilter('ignore')
from multiprocessing import Pool
from scipy.optimize import linprog
from sklearn.base import BaseEstimator
from fairlearn.reductions import *
class Exact(BaseEstimator):
    def fit(self,X,y,sample_weight=None):
        x=np.asarray(X)[:,0]; y=np.asarray(y); w=np.asarray(sample_weight,dtype=float)
        self.table_={v:(1 if w[(x==v)&(y==1)].sum()>w[(x==v)&(y==0)].sum() else 0) for v in np.unique(x)}
        return self
    def predict(self,X): return np.array([self.table_.get(v,0) for v in np.asarray(X)[:,0]])
def ref_gamma(name,ratio,y,a,h):
    out={}
    u = np.abs(y-h) if name=='ErrorRateParity' else h
    if name in('DemographicParity','ErrorRateParity'): evs=[np.ones(len(y),bool)]
    elif name=='TruePositiveRateParity': evs=[y==1]
    elif name=='FalsePositiveRateParity': evs=[y==0]
    else: evs=[y==0,y==1]
    res=[]
    for me in evs:
        if me.sum()==0: continue
        for g in sorted(set(a[me])):
            mg=me&(a==g)
            res.append(ratio*u[mg].mean()-u[me].mean()); res.append(ratio*u[me].mean()-u[mg].mean())
    return np.array(res)
rowtypes=[(x,g,l) for x in (0,1) for g in 'ab' for l in (0,1)]
def datasets(n):
    for ms in itertools.combinations_with_replacement(rowtypes,n):
        if len({g for _,g,_ in ms})==2: yield ms
Ms=[DemographicParity,TruePositiveRateParity,FalsePositiveRateParity,EqualizedOdds,ErrorRateParity]
def work(ms):
    out=[]; X=np.array([[r[0]] for r in ms],float); a=np.array([r[1] for r in ms]); y=np.array([r[2] for r in ms])
    xs=sorted(set(X[:,0])); H=[dict(zip(xs,bits)) for bits in itertools.product([0,1],repeat=len(xs))]
    HP=[np.array([h[v] for v in X[:,0]]) for h in H]
    for Mc in Ms:
      for bound in [('d',0.0),('d',0.1),('r',0.8)]:
        ratio=bound[1] if bound[0]=='r' else 1.0; slack=0.0 if bound[0]=='r' else bound[1]
        errs=np.array([np.mean(hp!=y) for hp in HP]); Gm=np.array([ref_gamma(Mc.__name__,ratio,y,a,hp) for hp in HP]).T
        lp=linprog(errs,A_ub=Gm,b_ub=np.full(Gm.shape[0],slack),A_eq=np.ones((1,len(H))),b_eq=[1],bounds=(0,None),method='highs')
        opt=lp.fun
        for eps,mi,lps in itertools.product([0.05,0.25],[1,3,8,25],[True,False]):
            cons=Mc(difference_bound=bound[1]) if bound[0]=='d' else Mc(ratio_bound=bound[1])
            eg=ExponentiatedGradient(Exact(),cons,eps=eps,max_iter=mi,run_linprog_step=lps)
            try: eg.fit(X,y,sensitive_features=a)
            except Exception as e:
                out.append(('EXC',Mc.__name__,bound,eps,mi,lps,ms,repr(e)[:80])); continue
            w=eg.weights_; preds=[np.asarray(p.predict(X)) for p in eg.predictors_]
            if abs(w.sum()-1)>1e-9 or (w<-1e-12).any(): out.append(('W',Mc.__name__,bound,eps,mi,lps,ms,w.to_dict()))
            errQ=sum(w[i]*np.mean(preds[i]!=y) for i in w.index)
            gQ=sum(w[i]*ref_gamma(Mc.__name__,ratio,y,a,preds[i].astype(float)) for i in w.index)
            g=eg.best_gap_; B=1/eps
            if errQ>opt+2*g+1e-7: out.append(('ERR',Mc.__name__,bound,eps,mi,lps,ms,errQ,opt,g))
            if (gQ-slack).max()>(1+2*g)/B+1e-7: out.append(('VIOL',Mc.__name__,bound,eps,mi,lps,ms,(gQ-slack).max(),(1+2*g)/B,g))
            if eg.last_iter_<mi-1 and not g<eg.nu: out.append(('NU',Mc.__name__,bound,eps,mi,lps,ms,g,eg.nu))
    return out
if __name__=='__main__':
    D=[d for n in (3,4) for d in datasets(n)]
    print(len(D)); t=time.time(); bad=[]
    with Pool(15) as pool:
        for r in pool.imap_unordered(work,D,chunksize=2): bad+=r
    print('bad',len(bad),'time',time.time()-t)
    from collections import Counter
    print(Counter(b[0] for b in bad))
    for b in bad[:20]: print(b)
