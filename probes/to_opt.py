import numpy as np, warnings, itertools, time, sys
warnings.simplefilter('ignore')
from multiprocessing import Pool
from sklearn.base import BaseEstimator, ClassifierMixin
from fairlearn.postprocessing import ThresholdOptimizer
class Score(ClassifierMixin, BaseEstimator):
    def fit(self,X,y,**k): self.fitted_=True; return self
    def predict(self,X): return np.asarray(X)[:,0].astype(float)
EST=Score().fit(None,None)
rows=[(l,s) for l in (0,1) for s in (1,2,3)]
def groups(maxn):
    for n in range(2,maxn+1):
        for ms in itertools.combinations_with_replacement(rows,n):
            if {l for l,_ in ms}=={0,1}: yield ms
G=list(groups(3))
def M(name,y,p):
    y=np.asarray(y,float); p=np.asarray(p,float)
    if name=='selection_rate': return p.mean()
    if name=='false_positive_rate': return p[y==0].mean()
    if name=='true_positive_rate': return p[y==1].mean()
    if name=='false_negative_rate': return (1-p[y==1]).mean()
    if name=='true_negative_rate': return (1-p[y==0]).mean()
    if name=='accuracy_score': return (y*p+(1-y)*(1-p)).mean()
    if name=='balanced_accuracy_score': return .5*p[y==1].mean()+.5*(1-p[y==0]).mean()
cons={'demographic_parity':'selection_rate','false_positive_rate_parity':'false_positive_rate','true_positive_rate_parity':'true_positive_rate','false_negative_rate_parity':'false_negative_rate','true_negative_rate_parity':'true_negative_rate'}
def points(y,s,flip,xm,ym):
    y=np.asarray(y); s=np.asarray(s,float)
    lv=sorted(set(s)); ths=[-np.inf]+[(a+b)/2 for a,b in zip(lv,lv[1:])]+[np.inf]
    pts=[]
    for t in ths:
        for op in ('>','<') if flip else ('>',):
            p=(s>t).astype(float) if op=='>' else (s<t).astype(float)
            pts.append((M(xm,y,p),M(ym,y,p)))
    return pts
def env(pts,x):
    best=-np.inf
    for (x0,y0) in pts:
        if abs(x0-x)<1e-12: best=max(best,y0)
    for (x0,y0),(x1,y1) in itertools.combinations(pts,2):
        if x0>x1: x0,y0,x1,y1=x1,y1,x0,y0
        if x0<x<x1:
            best=max(best,y0+(y1-y0)*(x-x0)/(x1-x0))
    return best
def work(pair):
    ga,gb=pair; out=[]
    y=[l for l,_ in ga]+[l for l,_ in gb]; s=[float(x) for _,x in ga]+[float(x) for _,x in gb]; a=['a']*len(ga)+['b']*len(gb)
    X=np.array(s).reshape(-1,1); ya=np.array(y); sa=np.array(s); aa=np.array(a); n=len(y)
    for c,flip,gs in itertools.product(list(cons)+['equalized_odds'],[False,True],[1,2,3,7]):
        grid=np.linspace(0,1,gs+1)
        for obj in (['accuracy_score','balanced_accuracy_score'] if c=='equalized_odds' else ['accuracy_score','selection_rate','true_positive_rate','true_negative_rate','balanced_accuracy_score']):
            t_=ThresholdOptimizer(estimator=EST,constraints=c,objective=obj,prefit=True,predict_method='predict',grid_size=gs,flip=flip).fit(X,y,sensitive_features=a)
            p=t_._pmf_predict(X,sensitive_features=a)[:,1]
            if c!='equalized_odds':
                ach=sum((aa==g).sum()/n*M(obj,ya[aa==g],p[aa==g]) for g in 'ab')
                P={g:points(ya[aa==g],sa[aa==g],flip,cons[c],obj) for g in 'ab'}
                ref=max(sum((aa==g).sum()/n*env(P[g],x) for g in 'ab') for x in grid)
            else:
                ach=M(obj,ya,p)
                P={g:points(ya[aa==g],sa[aa==g],flip,'false_positive_rate','true_positive_rate') for g in 'ab'}
                npos=ya.sum(); nneg=n-npos
                vals=[]
                for x in grid:
                    ym=min(env(P[g],x) for g in 'ab')
                    vals.append((npos*ym+nneg*(1-x))/n if obj=='accuracy_score' else .5*ym+.5*(1-x))
                ref=max(vals)
            if abs(ach-ref)>1e-9: out.append((c,obj,flip,gs,y,s,a,ach,ref))
    return out
if __name__=='__main__':
    pairs=list(itertools.combinations_with_replacement(G,2))
    t=time.time(); bad=[]
    with Pool(15) as pool:
        for r in pool.imap_unordered(work,pairs,chunksize=4): bad+=r
    print('pairs',len(pairs),'bad',len(bad),'time',time.time()-t)
    for b in bad[:25]: print(b)
