import numpy as np, pandas as pd, warnings, itertools, time, math
warnings.simplefilter('ignore')
from multiprocessing import Pool
from fairlearn.metrics import MetricFrame, count
def spy_w(y_true,y_pred,w):
    ids=[int(i) for i in y_true]
    if [int(p) for p in y_pred]!=[10*i+1 for i in ids] or [int(x) for x in w]!=[100*i+7 for i in ids]: return -1.0
    return float(sum(2**i for i in ids))
def spy(y_true,y_pred):
    ids=[int(i) for i in y_true]
    if [int(p) for p in y_pred]!=[10*i+1 for i in ids]: return -1.0
    return float(sum(2**i for i in ids))
LAY=[(1,0),(2,0),(1,1),(3,0),(2,1),(1,2),(2,2),(3,2)]
def work(args):
    (s,c),n,assign=args; out=[]
    k=s+c; ids=np.arange(n)
    cols=[[ 'pq'[(a>>j)&1]+str(j) for a in assign] for j in range(k)]
    cf={('c%d'%j):cols[j] for j in range(c)}; sf={('s%d'%j):cols[c+j] for j in range(s)}
    kw=dict(sensitive_features=sf); 
    if c: kw['control_features']=cf
    for form in ['callable','dict']:
        metrics=spy_w if form=='callable' else {'sw':spy_w,'s':spy,'n':count}
        sp={'w':100*ids+7} if form=='callable' else {'sw':{'w':100*ids+7}}
        try: mf=MetricFrame(metrics=metrics,y_true=ids,y_pred=10*ids+1,sample_params=sp,**kw)
        except Exception as e: out.append(('EXC',args,form,repr(e)[:100])); continue
        rows={}
        for i in range(n): rows.setdefault(tuple(col[i] for col in cols),[]).append(i)
        obs_vals=[sorted(set(col)) for col in cols]
        exp_idx=set(itertools.product(*obs_vals))
        bg=mf.by_group; 
        bgv = bg if form=='callable' else bg['sw']
        idx=[t if isinstance(t,tuple) else (t,) for t in bgv.index]
        if set(idx)!=exp_idx or len(idx)!=len(exp_idx): out.append(('IDX',args,form,idx)); continue
        for t in idx:
            v=bgv[t if k>1 else t[0]]
            e=float(sum(2**i for i in rows[t])) if t in rows else float('nan')
            if not ((math.isnan(v) and math.isnan(e)) or v==e): out.append(('VAL',args,form,t,float(v),e))
        ov=mf.overall if form=='callable' else mf.overall['sw'] if c==0 else mf.overall['sw']
        if c==0:
            if float(ov)!=float(2**n-1): out.append(('OV',args,form,float(ov)))
        else:
            cidx=set(itertools.product(*obs_vals[:c]))
            oi=[t if isinstance(t,tuple) else (t,) for t in ov.index]
            if set(oi)!=cidx: out.append(('OVIDX',args,form,oi))
            for t in oi:
                e=sum(2**i for i in range(n) if tuple(col[i] for col in cols[:c])==t)
                v=ov[t if c>1 else t[0]]
                if not ((math.isnan(v) and e==0) or v==e): out.append(('OVVAL',args,form,t,float(v),e))
        if mf.sensitive_levels!=list(sf) or (mf.control_levels or [])!=list(cf): out.append(('LEV',args))
    return out
if __name__=='__main__':
    cases=[]
    for (s,c) in LAY:
        k=s+c; nmax={1:5,2:4,3:4,4:3,5:2}[k]
        for n in range(1,nmax+1):
            for a in itertools.product(range(2**k),repeat=n): cases.append(((s,c),n,a))
    print(len(cases)); t=time.time(); bad=[]
    with Pool(15) as pool:
        for r in pool.imap_unordered(work,cases,chunksize=16): bad+=r
    from collections import Counter
    print('bad',len(bad),'time',time.time()-t, Counter(b[0] for b in bad))
    for b in bad[:8]: print(b)
