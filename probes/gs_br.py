import numpy as np, pandas as pd, warnings, itertools, time
warnings.simplefilter('ignore')
from multiprocessing import Pool
from sklearn.base import BaseEstimator
from fairlearn.reductions import *
class Exact(BaseEstimator):
    def fit(self,X,y,sample_weight=None):
        x=np.asarray(X)[:,0]; y=np.asarray(y); w=np.asarray(sample_weight,dtype=float)
        self.table_={v:(1 if w[(x==v)&(y==1)].sum()>w[(x==v)&(y==0)].sum() else 0) for v in np.unique(x)}
        return self
    def predict(self,X): return np.array([self.table_.get(v,0) for v in np.asarray(X)[:,0]])
def ref_gamma(name,ratio,y,a,h):
    u = np.abs(y-h) if name=='ErrorRateParity' else h
    if name in('DemographicParity','ErrorRateParity'): evs=[('all',np.ones(len(y),bool))]
    elif name=='TruePositiveRateParity': evs=[('label=1',y==1)]
    elif name=='FalsePositiveRateParity': evs=[('label=0',y==0)]
    else: evs=[('label=0',y==0),('label=1',y==1)]
    res={}
    for en,me in evs:
        if me.sum()==0: continue
        for g in sorted(set(a[me])):
            mg=me&(a==g)
            res[('+',en,g)]=ratio*u[mg].mean()-u[me].mean(); res[('-',en,g)]=ratio*u[me].mean()-u[mg].mean()
    return res
rowtypes=[(x,g,l) for x in (0,1) for g in 'ab' for l in (0,1)]
def datasets(n):
    for ms in itertools.combinations_with_replacement(rowtypes,n):
        if len({g for _,g,_ in ms})==2 and len({l for _,_,l in ms})==2: yield ms
def work(ms):
    out=[]; X=np.array([[r[0]] for r in ms],float); a=np.array([r[1] for r in ms]); y=np.array([r[2] for r in ms])
    xs=sorted(set(X[:,0])); H=[dict(zip(xs,bits)) for bits in itertools.product([0,1],repeat=len(xs))]
    HP=[np.array([h[v] for v in X[:,0]],float) for h in H]
    for Mc in [DemographicParity,EqualizedOdds,TruePositiveRateParity,ErrorRateParity]:
      for gsz,cw in itertools.product([2,5,11],[0,0.3,1]):
        gs=GridSearch(Exact(),Mc(),grid_size=gsz,constraint_weight=cw)
        try: gs.fit(X,y,sensitive_features=a)
        except Exception as e: out.append(('EXC',Mc.__name__,gsz,ms,repr(e)[:80])); continue
        losses=[]
        for i,col in enumerate(gs.lambda_vecs_.columns):
            lam=gs.lambda_vecs_[col]; p=np.asarray(gs.predictors_[i].predict(X),float)
            rg=ref_gamma(Mc.__name__,1.0,y,a,p); err=np.mean(p!=y)
            if abs(err-gs.objectives_[i])>1e-12 or any(abs(gs.gammas_[col][k]-v)>1e-12 for k,v in rg.items()) or set(rg)!=set(gs.gammas_[col].index): out.append(('REC',Mc.__name__,gsz,ms,i))
            val=err+sum(lam[k]*v for k,v in rg.items())
            best=min(np.mean(hp!=y)+sum(lam[k]*v for k,v in ref_gamma(Mc.__name__,1.0,y,a,hp).items()) for hp in HP)
            if val>best+1e-9: out.append(('BR',Mc.__name__,gsz,ms,i,val,best,lam.to_dict()))
            losses.append((1-cw)*err+cw*max(rg.values()))
        if losses[gs.best_idx_]>min(losses)+1e-12: out.append(('SEL',Mc.__name__,gsz,cw,ms,gs.best_idx_,losses))
        if not np.array_equal(gs.predict(X),gs.predictors_[gs.best_idx_].predict(X)): out.append(('PRED',))
    return out
if __name__=='__main__':
    D=[d for n in (3,4) for d in datasets(n)]
    print(len(D)); t=time.time(); bad=[]
    with Pool(15) as pool:
        for r in pool.imap_unordered(work,D,chunksize=2): bad+=r
    from collections import Counter
    print('bad',len(bad),'time',time.time()-t,Counter(b[0] for b in bad))
    for b in bad[:10]: print(b)
