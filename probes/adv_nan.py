import numpy as np, warnings, torch
warnings.simplefilter('ignore')
from fairlearn.adversarial import AdversarialFairnessClassifier
X=np.array([[1.,2],[2,1],[1,1],[3,2]]); y=np.array([0,1,1,0]); A=np.array(['a','b','a','b'])
nan=0
for seed,X in enumerate([X,-X,X*[1,-1],X*[-1,1]]):
    e=AdversarialFairnessClassifier(backend='torch',predictor_model=[1,torch.nn.ReLU()],adversary_model=[],predictor_optimizer='SGD',adversary_optimizer='SGD',learning_rate=0.1,batch_size=-1,epochs=1,random_state=seed)
    e.fit(X,y,sensitive_features=A)
    ps=[p for p in e.backendEngine_.predictor_model.parameters()]
    if any(torch.isnan(p).any() for p in ps):
        nan+=1
        if nan<3: print(seed,[p.detach().numpy().round(3).tolist() for p in ps])
print('nan fits',nan,'of 40'); print(torch.finfo(float).tiny, torch.tensor(0.,dtype=torch.float32)+torch.finfo(float).tiny)
