import numpy as np, pandas as pd, warnings, itertools, time
warnings.simplefilter('ignore')
from multiprocessing import Pool
from fairlearn.metrics import MetricFrame, count, selection_rate
def distinct(y_true,y_pred): return float(len(set(y_true.tolist())))
def const(y_true,y_pred): return 3.0
def same(a,b):
    if isinstance(a,(pd.Series,pd.DataFrame)):
        return type(a)==type(b) and a.shape==b.shape and list(a.index)==list(b.index) and np.allclose(np.asarray(a,float),np.asarray(b,float),equal_nan=True)
    return np.isclose(a,b,equal_nan=True)
def leq(a,b):
    A=np.asarray(a,float); B=np.asarray(b,float); m=~(np.isnan(A)|np.isnan(B)); return bool((A[m]<=B[m]+1e-12).all())
def work(args):
    n,assign=args; out=[]
    ids=np.arange(n); yp=np.array([i%2 for i in range(n)])
    sf1=[ 'ab'[a&1] for a in assign]; sf2=['xy'[(a>>1)&1] for a in assign]; cf=['uv'[(a>>2)&1] for a in assign]
    for layout in ['s1','s2','s1c1']:
        kw=dict(sensitive_features=sf1) if layout=='s1' else dict(sensitive_features={'s1':sf1,'s2':sf2}) if layout=='s2' else dict(sensitive_features=sf1,control_features=cf)
        for metrics in [selection_rate,{'n':count,'d':distinct,'c':const,'sr':selection_rate}]:
            for nb,qs,seed in itertools.product([1,3,10],[[0.5],[0.9,0.1],[0.001,0.5,0.999]],[0,1]):
                try:
                    mf=MetricFrame(metrics=metrics,y_true=ids,y_pred=yp,n_boot=nb,ci_quantiles=qs,random_state=seed,**kw)
                    mf2=MetricFrame(metrics=metrics,y_true=ids,y_pred=yp,n_boot=nb,ci_quantiles=qs,random_state=seed,**kw)
                except Exception as e:
                    out.append(('EXC',n,assign,layout,type(metrics).__name__,nb,qs,seed,repr(e)[:100])); continue
                pairs=[('overall',mf.overall,mf.overall_ci,mf2.overall_ci),('by_group',mf.by_group,mf.by_group_ci,mf2.by_group_ci),('gmin',mf.group_min(),mf.group_min_ci(),mf2.group_min_ci()),('gmax',mf.group_max(),mf.group_max_ci(),mf2.group_max_ci())]
                for m in ['between_groups','to_overall']:
                    pairs+=[('diff_'+m,mf.difference(method=m),mf.difference_ci(method=m),mf2.difference_ci(method=m)),('ratio_'+m,mf.ratio(method=m),mf.ratio_ci(method=m),mf2.ratio_ci(method=m))]
                for name,pt,ci,ci2 in pairs:
                    if not isinstance(ci,list) or len(ci)!=len(qs): out.append(('LEN',name,n,assign,layout,nb,qs)); continue
                    for k,c in enumerate(ci):
                        if type(c)!=type(pt) and not (np.isscalar(c) and np.isscalar(pt)): out.append(('TYPE',name,n,assign,layout,type(metrics).__name__,nb,qs,type(c).__name__,type(pt).__name__))
                        if isinstance(pt,pd.DataFrame) and list(c.columns)!=list(pt.columns): out.append(('COLS',name))
                        if isinstance(pt,(pd.Series,pd.DataFrame)):
                            ci_idx=list(c.index); pt_idx=list(pt.index)
                            if not set(ci_idx)<=set(pt_idx) or ci_idx!=[i for i in pt_idx if i in set(ci_idx)]: out.append(('IDX',name,n,assign,layout,type(metrics).__name__,nb,qs,ci_idx,pt_idx))
                        if not same(c,ci2[k]): out.append(('NONDET',name,n,assign,layout))
                    for i,j in itertools.permutations(range(len(qs)),2):
                        if qs[i]<=qs[j] and not leq(ci[i],ci[j]): out.append(('ORDER',name,n,assign,layout,type(metrics).__name__,nb,qs,seed))
                if isinstance(metrics,dict) and layout!='s1c1':
                    for c in mf.overall_ci:
                        if c['n']!=n or c['c']!=3.0: out.append(('COUNT',n,assign,layout,nb,qs,seed,c.to_dict()))
    return out
if __name__=='__main__':
    cases=[(n,a) for n in (2,3) for a in itertools.product(range(8),repeat=n)]
    print(len(cases)); t=time.time(); bad=[]
    with Pool(15) as pool:
        for r in pool.imap_unordered(work,cases,chunksize=4): bad+=r
    from collections import Counter
    print('bad',len(bad),'time',time.time()-t, Counter((b[0],b[1]) for b in bad).most_common(20))
    seen=set()
    for b in bad:
        if (b[0],b[1]) not in seen: seen.add((b[0],b[1])); print(b)
