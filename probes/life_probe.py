import numpy as np, pandas as pd, warnings, pickle
warnings.simplefilter('ignore')
from sklearn.base import BaseEstimator, ClassifierMixin, clone
from sklearn.linear_model import LogisticRegression
from fairlearn.reductions import *
from fairlearn.postprocessing import ThresholdOptimizer
from fairlearn.preprocessing import CorrelationRemover
def tr(f):
    try: r=f(); return 'OK '+repr(r)[:90]
    except Exception as e: return type(e).__name__+': '+str(e)[:90]
X1=np.array([[0.],[1],[2],[3],[0],[1],[2],[3]]); y1=np.array([0,0,1,1,0,1,0,1]); a1=np.array(list('aaaabbbb'))
X2=np.array([[3.],[1],[2],[0],[0],[1],[2],[3]]); y2=np.array([0,1,1,0,1,1,0,0]); a2=np.array(list('abababab'))
eg=ExponentiatedGradient(LogisticRegression(),DemographicParity())
p0=eg.get_params(deep=False)
print('fit ret self', eg.fit(X1,y1,sensitive_features=a1) is eg)
p1=eg.get_params(deep=False); print({k:(p0[k],p1[k]) for k in p0 if repr(p0[k])!=repr(p1[k])})
print('refit', tr(lambda: eg.fit(X2,y2,sensitive_features=a2)))
print('clone fit', tr(lambda: clone(eg).fit(X2,y2,sensitive_features=a2)))
print('pickle', tr(lambda: (pickle.loads(pickle.dumps(eg))._pmf_predict(X1)==eg._pmf_predict(X1)).all()))
gs=GridSearch(LogisticRegression(),DemographicParity(),grid_size=5)
print('gs fit ret', gs.fit(X1,y1,sensitive_features=a1))
print('gs refit', tr(lambda: gs.fit(X2,y2,sensitive_features=a2)))
print('gs pickle', tr(lambda: (pickle.loads(pickle.dumps(gs)).predict(X1)==gs.predict(X1)).all()))
to=ThresholdOptimizer(estimator=LogisticRegression(),predict_method='predict_proba')
print('to ret', to.fit(X1,y1,sensitive_features=a1) is to)
d1=to._pmf_predict(X1,sensitive_features=a1)
to.fit(X2,y2,sensitive_features=a2); d2=to._pmf_predict(X1,sensitive_features=a1)
d3=ThresholdOptimizer(estimator=LogisticRegression(),predict_method='predict_proba').fit(X2,y2,sensitive_features=a2)._pmf_predict(X1,sensitive_features=a1)
print('to refit==fresh',(d2==d3).all(), 'pickle', (pickle.loads(pickle.dumps(to))._pmf_predict(X1,sensitive_features=a1)==d2).all())
XX1=np.array([[0.,1,2],[1,3,1],[2,0,5],[3,4,4]]); XX2=XX1[::-1]**2
cr=CorrelationRemover(sensitive_feature_ids=[0])
print('cr ret', cr.fit(XX1) is cr); t1=cr.transform(XX1)
cr.fit(XX2); print('cr refit==fresh', np.allclose(cr.transform(XX1), CorrelationRemover(sensitive_feature_ids=[0]).fit(XX2).transform(XX1)))
print('cr pickle', np.array_equal(pickle.loads(pickle.dumps(cr)).transform(XX1), cr.transform(XX1)))
# corr remover 2 sensitive cols
cr=CorrelationRemover(sensitive_feature_ids=[0,1]); Z=cr.fit_transform(np.array([[0.,1,2,1],[1,3,1,0],[2,0,5,2],[3,4,4,7],[1,1,1,3]]))
S=np.array([[0.,1],[1,3],[2,0],[3,4],[1,1]])
print('cov', ((S-S.mean(0)).T@ (Z-Z.mean(0))).round(6))
