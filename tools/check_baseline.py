"""Compare a junit xml of the repository's own suite with /root/.vp/BASELINE.json stable_pass.
usage: python3 tools/check_baseline.py /tmp/junit.xml"""
import json, sys, xml.etree.ElementTree as ET
b = json.load(open('/root/.vp/BASELINE.json'))
stable = set(b['stable_pass'])
passed, failed = set(), set()
for tc in ET.parse(sys.argv[1]).getroot().iter('testcase'):
    tid = (tc.get('classname') or '') + '::' + (tc.get('name') or '')
    if tc.find('failure') is not None or tc.find('error') is not None:
        failed.add(tid)
    elif tc.find('skipped') is None:
        passed.add(tid)
passed -= failed
missing = sorted(stable - passed)
print("stable_pass=%d passed_now=%d failed_now=%d stable_not_passing=%d" % (len(stable), len(passed), len(failed), len(missing)))
for m in missing[:30]:
    print("  NOT PASSING:", m)
sys.exit(1 if missing else 0)
