"""Refresh the generated tables inside DESIGN.md (between the BEGIN/END markers)."""
import re, subprocess
s = open('/verif/DESIGN.md').read()
for tag, cmd in (("TIER_TABLE", ["python3", "/verif/tools/tier_table.py"]), ("DETECTION", ["python3", "/verif/tools/detection_table.py"])):
    out = subprocess.run(cmd, capture_output=True, text=True).stdout
    s = re.sub(r"<!-- %s:BEGIN -->.*?<!-- %s:END -->" % (tag, tag), lambda m: "<!-- %s:BEGIN -->\n%s<!-- %s:END -->" % (tag, out, tag), s, flags=re.S)
open('/verif/DESIGN.md', 'w').write(s)
print("DESIGN.md tables refreshed")
