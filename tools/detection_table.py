"""Build the detection record (DESIGN.md section 8) from seeded/mutants*.json, seeded/mutant_results.jsonl and seeded/<ID>/meta.json."""
import glob, json, os
R = {}
for l in open('/verif/seeded/mutant_results.jsonl'):
    r = json.loads(l)
    R[(r['mutant'], r['property'])] = r           # last result wins
notes = json.load(open('/verif/seeded/mutant_notes.json')) if os.path.exists('/verif/seeded/mutant_notes.json') else {}
print("| change (hand-written mutant) | what it does | checks run -> result |")
print("|---|---|---|")
for f in sorted(glob.glob('/verif/seeded/mutants*.json')):
    for m in json.load(open(f)):
        res = []
        for p in m['props']:
            r = R.get((m['name'], p))
            if r is None:
                res.append("%s: not run" % p)
            else:
                res.append("%s: %s" % (p, "**caught**" if r['exit'] == 1 and r['violation_lines'] > 0 else ("harness exit 2" if r['exit'] == 2 else "silent")))
        n = notes.get(m['name'], "")
        print("| `%s` (%s) | %s | %s%s |" % (m['name'], m['file'].split('/')[-1], m.get('note', ''), "; ".join(res), (" - " + n) if n else ""))
print()
print("| seeded change (independent sub-agent) | needs to manifest | result |")
print("|---|---|---|")
for d in sorted(glob.glob('/verif/seeded/C*/meta.json')):
    m = json.load(open(d))
    ev = m.get('evaluation', {})
    print("| `seeded/%s` - %s | %s | %s |" % (os.path.basename(os.path.dirname(d)), str(m.get('summary', ''))[:220].replace('|', '/').replace('\n', ' '),
                                            str(m.get('needs_to_manifest', ''))[:200].replace('|', '/').replace('\n', ' '), ev.get('result', 'not evaluated').replace('|', '/')))
