"""Build the detection record (DESIGN.md section 8) from seeded/mutants*.json, seeded/mutant_results.jsonl and seeded/<ID>/meta.json."""
import glob, json, os
R = {}
for l in open('/verif/seeded/mutant_results.jsonl'):
    r = json.loads(l)
    R[(r['mutant'], r['property'])] = r           # last result wins
notes = json.load(open('/verif/seeded/mutant_notes.json')) if os.path.exists('/verif/seeded/mutant_notes.json') else {}
print("| change (hand-written mutant) | what it does | checks run -> result |")
print("|---|---|---|")
for f in sorted(glob.glob('/verif/seeded/mutants*.json')):
    for m in json.load(open(f)):
        res = []
        for p in m['props']:
            r = R.get((m['name'], p))
            if r is None:
                res.append("%s: not run" % p)
            else:
                res.append("%s: %s" % (p, "**caught**" if r['exit'] == 1 and r['violation_lines'] > 0 else ("harness exit 2" if r['exit'] == 2 else "silent")))
        n = notes.get(m['name'], "")
        print("| `%s` (%s) | %s | %s%s |" % (m['name'], m['file'].split('/')[-1], m.get('note', ''), "; ".join(res), (" - " + n) if n else ""))
print()
import re
final = {}
if os.path.exists('/verif/seeded/final_sweep.log'):
    for l in open('/verif/seeded/final_sweep.log'):
        m = re.match(r"FINAL seed (\S+) check (\S+): exit-violations=(\d+)", l)
        if m:
            final.setdefault(m.group(1), {})[m.group(2)] = int(m.group(3))   # later lines win
print("| seeded change (independent sub-agent; `seeded/<id>/`) | needs to manifest | result when first evaluated | final checks (`tools/final_sweep.sh`) |")
print("|---|---|---|---|")
for d in sorted(glob.glob('/verif/seeded/C*/meta.json')):
    m = json.load(open(d))
    ev = m.get('evaluation', {})
    sid = os.path.basename(os.path.dirname(d))
    fin = "; ".join("%s %s" % (c, "**caught**" if v > 0 else "silent") for c, v in sorted(final.get(sid, {}).items())) or ("n/a (see note)" if 'note_after_F17' in ev and sid == 'C01' else "not run")
    print("| `%s` - %s | %s | %s | %s |" % (sid, str(m.get('summary', ''))[:260].replace('|', '/').replace('\n', ' '),
                                       str(m.get('needs_to_manifest', ''))[:220].replace('|', '/').replace('\n', ' '), ev.get('result', 'not evaluated').replace('|', '/'), fin))
