#!/bin/bash
# runs the thorough tier of every check (or the given ids) against /repo, keeps a copy of each evidence file under /verif/evidence_thorough/
ids=${@:-C20 C14 C17 C13 C15 C19 C12 C02 C16 C06 C07 C18 C11 C09 C10 C01 C03 C04 C05 C08}
mkdir -p /verif/evidence_thorough /tmp/thor_out
cd /verif
for id in $ids; do
  s=$(date +%s)
  out=$(VERIF_OUT=/tmp/thor_out VERIF_NPROC=${NPROC:-6} VERIF_CAP_S=${CAP:-5400} /venv/bin/python -m mc.run $id --tier thorough 2>&1 | grep -v "WARNING conda")
  echo "$id VIOL=$(echo "$out" | grep -c '^VIOLATION') known=$(echo "$out" | grep -c '^KNOWN-FINDING') $(echo "$out" | grep -E "^$id tier" | sed -E 's/ outcomes.*violations/ violations/') [$(( $(date +%s)-s ))s]"
  echo "$out" | grep -E "HARNESS|^VIOLATION|sig=" | head -6 | cut -c1-300
  cp /tmp/thor_out/evidence/$id.json /verif/evidence_thorough/$id.json 2>/dev/null
done
