"""Markdown table of what the quick / thorough runs actually covered (from evidence/ and evidence_thorough/)."""
import json, os
print("| id | level | quick (cases / implementation calls / wall s on 16 cores) | thorough (cases / calls / wall s) | states / transitions (model_checking) |")
print("|---|---|---|---|---|")
for i in range(1, 21):
    pid = "C%02d" % i
    def load(d):
        p = "/verif/%s/%s.json" % (d, pid)
        return json.load(open(p)) if os.path.exists(p) else None
    q, t = load("evidence"), load("evidence_thorough")
    def fmt(e):
        if not e:
            return "not run yet"
        c = e["coverage"]
        return "%d / %d / %.0f%s" % (c.get("cases", 0), c["evaluations"], e["wall_s"], "" if c.get("exhaustive", True) else " (cap hit)")
    st = ""
    if q and q["level"] == "model_checking":
        c = q["coverage"]
        st = "%d / %d (quick)" % (c.get("states", 0), c.get("transitions", 0))
        if t:
            st += "; %d / %d (thorough)" % (t["coverage"].get("states", 0), t["coverage"].get("transitions", 0))
    print("| %s | %s | %s | %s | %s |" % (pid, q["level"] if q else "?", fmt(q), fmt(t), st))
