#!/bin/bash
# Re-run every seeded change (round 1 and 2) and every hand mutant against the CURRENT checks; output to seeded/final_sweep.log
# seeds: uses the stored seeded/<ID>/patch.diff; checks per seed are listed below (own check first).
cd /verif
declare -A CH=( [C01]="C01" [C02]="C02" [C03]="C03 C14" [C04]="C04 C05" [C05]="C05" [C06]="C06" [C07]="C07" [C08]="C08" [C09]="C09" [C10]="C10" [C11]="C11" [C12]="C12" [C13]="C13" [C14]="C14" [C15]="C15" [C16]="C16" [C17]="C17" [C18]="C18" [C19]="C19" [C20]="C20 C12"
 [C01b]="C01 C12" [C02b]="C02" [C03b]="C03 C12 C20" [C04b]="C04 C05" [C05b]="C05 C12" [C06b]="C06 C08" [C07b]="C07 C09" [C08b]="C08" [C09b]="C09" [C10b]="C10" [C11b]="C11 C12" [C12b]="C12 C06" [C13b]="C13" [C14b]="C14" [C15b]="C15 C19" [C16b]="C16" [C17b]="C17" [C18b]="C18" [C19b]="C19 C10" [C20b]="C20" [C01c]="C01" [C02c]="C02" [C05c]="C05 C04" [C06c]="C06" [C07c]="C07" [C08c]="C08" [C09c]="C09 C12" [C10c]="C10" [C12c]="C12 C07" [C13c]="C13" [C15c]="C15" [C19c]="C19" )
for sd in $(ls -d seeded/C* | xargs -n1 basename | sort); do
  [ -f seeded/$sd/patch.diff ] || continue
  wt=/tmp/final_seed_$sd
  git -C /repo worktree remove --force $wt 2>/dev/null; git -C /repo worktree add --detach -f $wt HEAD -q
  if ! git -C $wt apply /verif/seeded/$sd/patch.diff 2>/dev/null; then echo "FINAL seed $sd: patch does not apply to HEAD"; git -C /repo worktree remove --force $wt; continue; fi
  for c in ${CH[$sd]}; do
    out=$(VERIF_REPO=$wt VERIF_OUT=/tmp/final_out VERIF_NPROC=${NPROC:-8} /venv/bin/python -m mc.run $c --tier quick 2>&1 | grep -v "WARNING conda")
    echo "FINAL seed $sd check $c: exit-violations=$(echo "$out" | grep -c '^VIOLATION') :: $(echo "$out" | grep 'sig=' | grep -v KNOWN | head -1 | cut -c1-160)"
  done
  git -C /repo worktree remove --force $wt
done
rm -rf /tmp/final_out
