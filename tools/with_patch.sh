#!/bin/bash
# usage: tools/with_patch.sh <patch.diff> <ID> [<ID> ...]   (env TIER=quick|thorough)
# applies the patch to /repo, runs the named checks, always reverts.
set -u
patch="$1"; shift
git -C /repo diff --quiet || { echo "repo dirty"; exit 3; }
git -C /repo apply "$patch" || { echo "patch does not apply"; exit 3; }
trap 'git -C /repo checkout -- . ' EXIT
for id in "$@"; do
  out=$(cd /verif && /venv/bin/python -m mc.run "$id" --tier "${TIER:-quick}" 2>&1 | grep -v "WARNING conda")
  rc=$?
  nv=$(echo "$out" | grep -c '^VIOLATION')
  echo "== $id: violations_lines=$nv  $(echo "$out" | grep -E "^$id tier" | sed 's/ states=.*wall/ wall/')"
  echo "$out" | grep -E "sig=|HARNESS" | head -4
done
