#!/bin/bash
# usage: tools/run_all.sh [quick|thorough] [ids...]   runs the registered commands one after another, prints a summary line each
tier=${1:-quick}; shift
ids=${@:-C01 C02 C03 C04 C05 C06 C07 C08 C09 C10 C11 C12 C13 C14 C15 C16 C17 C18 C19 C20}
cd /verif
for id in $ids; do
  s=$(date +%s)
  out=$(/venv/bin/python -m mc.run $id --tier $tier 2>&1 | grep -v "WARNING conda"); rc=$?
  echo "$id rc=$(echo "$out" | grep -c '^VIOLATION') known=$(echo "$out" | grep -c '^KNOWN-FINDING') $(echo "$out" | grep -E "^$id tier" | sed -E 's/ outcomes.*violations/ violations/') [$(( $(date +%s)-s ))s]"
  echo "$out" | grep -E "HARNESS|^VIOLATION|sig=" | head -5
done
