#!/bin/bash
# usage: tools/eval_seed.sh <ID> [check ids...]   -- evaluates the sub-agent's seeded change in /tmp/agent_wt/<ID>/seeded
# 1. copies patch/demo/meta to /verif/seeded/<ID>/  2. fresh worktree: demo passes without / fails with the patch
# 3. runs the given checks (default: the property's own check) against the patched worktree via VERIF_REPO
id=$1; shift; checks=${@:-$id}
src=${SRC:-/tmp/agent_wt}/$id/seeded; dst=/verif/seeded/$id${SUFFIX:-}; wt=/tmp/seed_eval_$id
[ -f $src/patch.diff ] || { echo "no patch for $id"; exit 1; }
mkdir -p $dst; cp $src/patch.diff $src/demo.py $src/meta.json $dst/ 2>/dev/null
git -C /repo worktree remove --force $wt 2>/dev/null; git -C /repo worktree add --detach -f $wt HEAD -q
mkdir -p $wt/seeded; cp $dst/demo.py $wt/seeded/
( cd $wt && PYTHONPATH=$wt /venv/bin/python seeded/demo.py >/tmp/seed_demo_$id.orig 2>&1 ); r0=$?
git -C $wt apply $dst/patch.diff || { echo "patch does not apply to HEAD"; }
( cd $wt && PYTHONPATH=$wt /venv/bin/python seeded/demo.py >/tmp/seed_demo_$id.patched 2>&1 ); r1=$?
echo "SEED $id demo: original exit=$r0 patched exit=$r1"
for c in $checks; do
  out=$(cd /verif && VERIF_REPO=$wt VERIF_OUT=/tmp/seed_out_$id VERIF_NPROC=${NPROC:-8} /venv/bin/python -m mc.run $c --tier ${TIER:-quick} 2>&1 | grep -v "WARNING conda")
  echo "SEED $id check $c: VIOLATION-lines=$(echo "$out" | grep -c '^VIOLATION') $(echo "$out" | grep -E "^$c tier" | sed -E 's/ outcomes.*violations/ violations/')"
  echo "$out" | grep -E "sig=|HARNESS" | head -3 | cut -c1-300
done
git -C /repo worktree remove --force $wt; rm -rf /tmp/seed_out_$id
