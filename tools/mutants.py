"""Run checks against hand-written mutants on a scratch worktree (never touches /repo's working tree).

usage: python3 tools/mutants.py [--only name,...] [--props C04,...] [--tier quick] [--nproc 8] [--slot 0]
Mutants are listed in /verif/seeded/mutants.json: [{"name","props":[..],"file","old","new","note"}].
A patch-file mutant has {"name","props","patch": "<path relative to /verif>"} instead.
Results are appended to /verif/seeded/mutant_results.jsonl.
"""
import argparse, json, os, subprocess, sys, time, shutil

ap = argparse.ArgumentParser()
ap.add_argument("--only", default="")
ap.add_argument("--props", default="")
ap.add_argument("--tier", default="quick")
ap.add_argument("--nproc", default="16")
ap.add_argument("--slot", default="0")
ap.add_argument("--file", default="/verif/seeded/mutants.json")
a = ap.parse_args()
muts = json.load(open(a.file))
only = set(filter(None, a.only.split(",")))
props = set(filter(None, a.props.split(",")))
wt = "/tmp/mut_wt_%s" % a.slot
out = "/tmp/mut_out_%s" % a.slot
subprocess.run(["git", "-C", "/repo", "worktree", "remove", "--force", wt], capture_output=True)
subprocess.run(["git", "-C", "/repo", "worktree", "add", "-f", "--detach", wt, "HEAD"], check=True, capture_output=True)
try:
    for m in muts:
        if only and m["name"] not in only:
            continue
        if props and not (props & set(m["props"])):
            continue
        subprocess.run(["git", "-C", wt, "checkout", "--", "."], check=True)
        if "patch" in m:
            r = subprocess.run(["git", "-C", wt, "apply", os.path.join("/verif", m["patch"])], capture_output=True, text=True)
            if r.returncode:
                print("MUTANT %s: patch does not apply: %s" % (m["name"], r.stderr[:200])); continue
        else:
            p = os.path.join(wt, m["file"])
            s = open(p).read()
            if s.count(m["old"]) != m.get("count", 1):
                print("MUTANT %s: pattern occurs %d times" % (m["name"], s.count(m["old"]))); continue
            open(p, "w").write(s.replace(m["old"], m["new"]))
        for pid in m["props"]:
            if props and pid not in props:
                continue
            env = dict(os.environ, VERIF_REPO=wt, VERIF_OUT=out, VERIF_NPROC=a.nproc)
            t = time.time()
            r = subprocess.run(["/venv/bin/python", "-m", "mc.run", pid, "--tier", a.tier], cwd="/verif", env=env, capture_output=True, text=True)
            lines = [l for l in r.stdout.splitlines() if "sig=" in l or "HARNESS" in l]
            rec = {"mutant": m["name"], "property": pid, "tier": a.tier, "exit": r.returncode,
                   "violation_lines": sum(1 for l in r.stdout.splitlines() if l.startswith("VIOLATION")),
                   "first": lines[:2], "wall_s": round(time.time() - t, 1)}
            print("MUTANT %-28s %s exit=%d viol=%d %5.0fs %s" % (m["name"], pid, r.returncode, rec["violation_lines"], rec["wall_s"],
                                                                 (lines[0][:150] if lines else r.stdout[-200:] + r.stderr[-300:])))
            sys.stdout.flush()
            with open("/verif/seeded/mutant_results.jsonl", "a") as f:
                f.write(json.dumps(rec) + "\n")
finally:
    subprocess.run(["git", "-C", "/repo", "worktree", "remove", "--force", wt], capture_output=True)
    shutil.rmtree(out, ignore_errors=True)
