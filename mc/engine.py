"""Bounded-exhaustive explorer shared by all checks (see DESIGN.md section 1).

A check module (mc/checks/cNN.py) defines

    PROPERTY   "C14"
    LEVEL      "exploration" | "fault_enumeration" | "model_checking"
    RULE       text: how cases are enumerated and what makes one non-trivial
    ASSUMPTIONS list of strings
    CLASSES    list of corner-class names that MUST be hit (vacuity guard)
    cases(tier, seed)  -> iterator of JSON-serialisable case descriptors (deterministic order)
    run_case(case)     -> dict with keys (all optional except none):
         evals        int   number of implementation calls made
         nontrivial   bool
         classes      iterable of corner-class names hit
         outcome      any JSON-able summary of what was observed (hashed for distinct_outcomes)
         violations   list of dict(sig=..., msg=..., expected=..., observed=..., snippet=...)
         states       iterable of canonical state fingerprints (model_checking)
         transitions  int
         traces       int  (traces executed on the implementation)
    describe(case)     -> optional human-readable form for evidence samples

The engine enumerates *all* cases, distributes them over a persistent pool of forked
workers, reduces the results in deterministic order, classifies violations against
/verif/known_findings.txt, re-executes each new violation in a fresh process, and writes
/verif/evidence/<id>.json.
"""
import hashlib
import importlib
import itertools
import json
import multiprocessing as mp
import os
import subprocess
import sys
import time
import traceback
import warnings

ROOT = os.path.dirname(os.path.dirname(os.path.abspath(__file__)))
# VERIF_REPO / VERIF_OUT are for mutation experiments on scratch worktrees only (tools/mutants.py);
# the registered commands never set them, so they always run /repo and write /verif/evidence.
REPO = os.path.realpath(os.environ.get("VERIF_REPO", "/repo"))
_OUT = os.environ.get("VERIF_OUT", ROOT)
EVIDENCE_DIR = os.path.join(_OUT, "evidence")
REPLAY_DIR = os.path.join(_OUT, "replays")
KNOWN_FILE = os.path.join(ROOT, "known_findings.txt")
PY = sys.executable

_CHECK = None  # module, set before fork


def jhash(obj):
    s = json.dumps(obj, sort_keys=True, default=str, separators=(",", ":"))
    return hashlib.blake2b(s.encode(), digest_size=8).hexdigest()


def load_check(pid):
    return importlib.import_module("mc.checks." + pid.lower())


def assert_bound_to_repo():
    import fairlearn

    f = os.path.realpath(fairlearn.__file__)
    if not f.startswith(REPO + "/"):
        print("HARNESS-ERROR: fairlearn imported from %s, not %s" % (f, REPO))
        sys.exit(2)


def _safe_run_case(case):
    """Run one case. An exception escaping the check (raised inside fairlearn, or in the oracle because the
    implementation returned something malformed) is reported as a violation of its own signature class."""
    try:
        with warnings.catch_warnings():
            warnings.simplefilter("ignore")
            r = _CHECK.run_case(case)
        return r or {}
    except Exception as e:
        tb = traceback.extract_tb(e.__traceback__)
        where = None
        for fr in tb:
            if os.path.realpath(fr.filename).startswith(REPO + "/"):
                where = "%s:%s" % (os.path.basename(fr.filename), fr.name)
        if where is None:
            where = "oracle:%s" % tb[-1].name
        pid = getattr(_CHECK, "PROPERTY", "?")
        return {"evals": 1, "nontrivial": True, "violations": [{
            "sig": "%s:crash:%s@%s" % (pid, type(e).__name__, where),
            "msg": "unexpected %s: %s | %s" % (type(e).__name__, str(e)[:200], traceback.format_exc()[-700:].replace("\n", " / ")),
            "expected": None, "observed": repr(e)[:300], "snippet": None}]}


def _work(chunk):
    """Run a chunk of (idx, case) in a worker and pre-reduce."""
    agg = {
        "n": 0, "evals": 0, "nontrivial": set(), "classes": {}, "outcomes": set(),
        "violations": [], "nviol": 0, "states": set(), "transitions": 0, "traces": 0,
        "harness_errors": [], "first": chunk[0][0],
        "sample": (chunk[0][0], getattr(_CHECK, "describe", lambda c: c)(chunk[0][1])),
    }
    for idx, case in chunk:
        r = _safe_run_case(case)
        agg["n"] += 1
        if "harness_error" in r:
            if len(agg["harness_errors"]) < 3:
                agg["harness_errors"].append((idx, case, r["harness_error"]))
            continue
        agg["evals"] += int(r.get("evals", 1))
        if r.get("nontrivial", True):
            agg["nontrivial"].add(jhash(case))
        for c in r.get("classes", ()):
            agg["classes"][c] = agg["classes"].get(c, 0) + 1
        if "outcome" in r:
            agg["outcomes"].add(jhash(r["outcome"]))
        for s in r.get("states", ()):
            agg["states"].add(s if isinstance(s, str) else jhash(s))
        agg["transitions"] += int(r.get("transitions", 0))
        agg["traces"] += int(r.get("traces", 0))
        for v in r.get("violations", ()):
            agg["nviol"] += 1
            if len(agg["violations"]) < 40:
                v = dict(v)
                v["case"] = case
                v["idx"] = idx
                agg["violations"].append(v)
    return agg


def _chunks(it, size):
    it = iter(it)
    i = 0
    while True:
        block = list(itertools.islice(it, size))
        if not block:
            return
        yield [(i + k, c) for k, c in enumerate(block)]
        i += len(block)


def read_known():
    known, fixed = {}, []
    if os.path.exists(KNOWN_FILE):
        for line in open(KNOWN_FILE):
            line = line.strip()
            if line.startswith("known:"):
                head, _, what = line[len("known:"):].partition("::")
                kv = dict(t.split("=", 1) for t in head.split() if "=" in t)
                known[(kv.get("property"), kv.get("sig"))] = what.strip()
            elif line.startswith("fixed:"):
                fixed.append(line)
    return known, fixed


def versions():
    import numpy, pandas, sklearn, scipy

    v = {"numpy": numpy.__version__, "pandas": pandas.__version__,
         "sklearn": sklearn.__version__, "scipy": scipy.__version__,
         "python": sys.version.split()[0]}
    try:
        v["repo_head"] = subprocess.run(["git", "-C", "/repo", "rev-parse", "--short", "HEAD"],
                                        capture_output=True, text=True).stdout.strip()
    except Exception:
        pass
    return v


def write_replay(pid, v):
    os.makedirs(REPLAY_DIR, exist_ok=True)
    body = {"property": pid, "sig": v.get("sig"), "msg": v.get("msg"), "case": v["case"],
            "expected": v.get("expected"), "observed": v.get("observed"),
            "snippet": v.get("snippet"), "versions": versions(),
            "replay_cmd": "cd /verif && %s -m mc.run %s --replay <this file>" % (PY, pid)}
    path = os.path.join(REPLAY_DIR, "%s-%s.json" % (pid, jhash([v.get("sig"), v["case"]])))
    with open(path, "w") as f:
        json.dump(body, f, indent=1, default=str)
    return path


def replay(pid, path):
    """Re-execute one recorded case through the check's own oracle."""
    global _CHECK
    _CHECK = load_check(pid)
    assert_bound_to_repo()
    body = json.load(open(path))
    r = _safe_run_case(body["case"])
    if "harness_error" in r:
        print("HARNESS-ERROR during replay:", r["harness_error"])
        return 2
    vs = r.get("violations", [])
    known, _ = read_known()
    new = [v for v in vs if (pid, v.get("sig")) not in known]
    for v in vs:
        print("replayed: sig=%s :: %s" % (v.get("sig"), v.get("msg")))
    if new:
        print("VIOLATION property=%s replay=%s" % (pid, path))
        return 1
    print("replay: no (unlisted) violation for this case on the current tree")
    return 0


def run(pid, tier="quick", seed=0, nproc=None, cap_s=None, confirm=True):
    global _CHECK
    t0 = time.time()
    _CHECK = load_check(pid)
    assert_bound_to_repo()
    chk = _CHECK
    nproc = nproc or int(os.environ.get("VERIF_NPROC", "0")) or min(16, os.cpu_count() or 1)
    cap_s = cap_s or float(os.environ.get("VERIF_CAP_S", "0")) or (900 if tier == "quick" else 3600)
    chunk_size = getattr(chk, "CHUNK", 16)
    if hasattr(chk, "prepare"):
        chk.prepare(tier, seed)
    gen = _chunks(chk.cases(tier, seed), chunk_size)

    tot = {"n": 0, "evals": 0, "nontrivial": set(), "classes": {}, "outcomes": set(),
           "violations": [], "nviol": 0, "states": set(), "transitions": 0, "traces": 0,
           "harness_errors": []}
    samples = []
    capped = False

    later_samples = []

    def merge(a):
        if a.get("sample") is not None and a["sample"][0] > 1:
            later_samples.append(a["sample"])
        tot["n"] += a["n"]
        tot["evals"] += a["evals"]
        tot["nontrivial"] |= a["nontrivial"]
        for k, v in a["classes"].items():
            tot["classes"][k] = tot["classes"].get(k, 0) + v
        tot["outcomes"] |= a["outcomes"]
        tot["states"] |= a["states"]
        tot["transitions"] += a["transitions"]
        tot["traces"] += a["traces"]
        tot["nviol"] += a["nviol"]
        tot["violations"] += a["violations"]
        tot["harness_errors"] += a["harness_errors"]

    # determinism self-check: first chunk executed twice (here and in a worker)
    first = next(gen, None)
    if first is None:
        print("HARNESS-ERROR: empty case space")
        return 2
    describe = getattr(chk, "describe", lambda c: c)
    samples = [describe(c) for _, c in first[:2]]
    ctx = mp.get_context("fork")
    with ctx.Pool(nproc) as pool:
        a0 = pool.apply(_work, (first,))
        a1 = pool.apply(_work, (first,))
        if (a0["outcomes"] != a1["outcomes"] or a0["nviol"] != a1["nviol"]
                or a0["states"] != a1["states"]):
            if getattr(chk, "NONDETERMINISM_IS_VIOLATION", False):
                # reproducibility is part of this property: two executions of the same cases disagree
                v = {"sig": "%s:nondeterministic-between-executions" % pid, "case": first[0][1], "idx": 0,
                     "msg": "the same cases executed twice (two worker processes, same seeds) gave different observations"}
                path = write_replay(pid, v)
                print("  sig=%s :: %s" % (v["sig"], v["msg"]))
                print("VIOLATION property=%s replay=%s" % (pid, path))
                return 1
            print("HARNESS-ERROR: nondeterministic observations on the first chunk")
            return 2
        merge(a0)
        last_sample = None
        for a in pool.imap(_work, gen, chunksize=1):
            merge(a)
            if time.time() - t0 > cap_s:
                capped = True
                pool.terminate()
                break
    if tot["harness_errors"]:
        idx, case, err = tot["harness_errors"][0]
        print("HARNESS-ERROR in case %s %s\n%s" % (idx, json.dumps(case, default=str)[:400], err))
        return 2

    # classify violations
    known, _ = read_known()
    tot["violations"].sort(key=lambda v: v["idx"])
    known_hit, new = {}, []
    for v in tot["violations"]:
        key = (pid, v.get("sig"))
        if key in known:
            known_hit.setdefault(v.get("sig"), []).append(v)
        else:
            new.append(v)
    for sig, vs in sorted(known_hit.items()):
        print("KNOWN-FINDING: property=%s sig=%s %s (e.g. %s)" % (
            pid, sig, known[(pid, sig)], str(vs[0].get("msg"))[:160]))

    rc = 0
    reported = []
    seen_sigs = set()
    for v in new:
        if v.get("sig") in seen_sigs:
            continue
        seen_sigs.add(v.get("sig"))
        path = write_replay(pid, v)
        if confirm:
            p = subprocess.run([PY, "-m", "mc.run", pid, "--replay", path], cwd=ROOT,
                               capture_output=True, text=True)
            if p.returncode != 1:
                print("HARNESS-ERROR: violation did not reproduce in a fresh process: %s\n%s" % (
                    path, (p.stdout + p.stderr)[-800:]))
                return 2
        reported.append((v, path))
        if len(reported) >= int(os.environ.get("VERIF_MAX_REPORT", "8")):
            break
    for v, path in reported:
        print("  sig=%s :: %s" % (v.get("sig"), str(v.get("msg"))[:300]))
        print("VIOLATION property=%s replay=%s" % (pid, path))
        rc = 1

    # vacuity guard
    missing = [c for c in getattr(chk, "CLASSES", []) if tot["classes"].get(c, 0) == 0]
    req = getattr(chk, "classes_required", None)
    if req is not None:
        missing = [c for c in req(tier) if tot["classes"].get(c, 0) == 0]
    if missing and not capped and rc == 0:
        print("HARNESS-ERROR: vacuous run, corner classes never hit: %s" % missing)
        return 2
    soft_missing = [c for c in getattr(chk, "SOFT_CLASSES", []) if tot["classes"].get(c, 0) == 0]
    if soft_missing:
        print("NOTE: implementation-dependent corner classes not reached in this run: %s" % soft_missing)

    wall = time.time() - t0
    level = chk.LEVEL
    cov = {
        "evaluations": tot["evals"],
        "cases": tot["n"],
        "distinct_nontrivial": len(tot["nontrivial"]),
        "distinct_outcomes": len(tot["outcomes"]),
        "corner_classes": dict(sorted(tot["classes"].items())),
        "rule": chk.RULE,
        "samples": samples + [smp for _, smp in ([later_samples[len(later_samples) // 2], later_samples[-1]] if len(later_samples) >= 2 else later_samples)],
        "exhaustive": not capped,
        "bounds": chk.bounds(tier, seed) if hasattr(chk, "bounds") else {},
        "soft_classes_not_reached": [c for c in getattr(chk, "SOFT_CLASSES", []) if tot["classes"].get(c, 0) == 0],
        "violations_total": tot["nviol"],
        "known_finding_hits": {k: len(v) for k, v in known_hit.items()},
        "workers": nproc,
        "versions": versions(),
    }
    if capped:
        cov["cap_hit_s"] = cap_s
    if level == "model_checking":
        cov["states"] = len(tot["states"])
        cov["transitions"] = tot["transitions"]
        cov["traces_validated_against_impl"] = tot["traces"]
    ev = {"property_id": pid, "tier": tier, "seed": int(seed), "level": level, "coverage": cov,
          "assumptions": list(getattr(chk, "ASSUMPTIONS", [])), "wall_s": round(wall, 2),
          "violations": len(new)}
    os.makedirs(EVIDENCE_DIR, exist_ok=True)
    with open(os.path.join(EVIDENCE_DIR, pid + ".json"), "w") as f:
        json.dump(ev, f, indent=1, default=str)
    print("%s tier=%s seed=%s cases=%d evals=%d nontrivial=%d outcomes=%d states=%d transitions=%d "
          "violations(new)=%d known=%d exhaustive=%s wall=%.1fs" % (
              pid, tier, seed, tot["n"], tot["evals"], len(tot["nontrivial"]), len(tot["outcomes"]),
              len(tot["states"]), tot["transitions"], len(new), sum(map(len, known_hit.values())),
              not capped, wall))
    print("  classes:", json.dumps(cov["corner_classes"]))
    return rc


# ---------------------------------------------------------------------------------------------
# helpers for checks


def close(a, b, tol=1e-9):
    """NaN-aware closeness."""
    import math

    try:
        a = float(a)
        b = float(b)
    except (TypeError, ValueError):
        return a == b
    if math.isnan(a) or math.isnan(b):
        return math.isnan(a) and math.isnan(b)
    if math.isinf(a) or math.isinf(b):
        return a == b
    return abs(a - b) <= tol * max(1.0, abs(a), abs(b))


def viol(sig, msg, expected=None, observed=None, snippet=None):
    return {"sig": sig, "msg": msg, "expected": expected, "observed": observed, "snippet": snippet}
