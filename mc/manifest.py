"""Regenerate /verif/MANIFEST.json from the check modules that exist (python -m mc.manifest)."""
import glob
import importlib
import json
import os

ROOT = os.path.dirname(os.path.dirname(os.path.abspath(__file__)))
PY = "/venv/bin/python"


def main():
    props = [json.loads(l) for l in open(os.path.join(ROOT, "properties.jsonl"))]
    have = sorted(os.path.basename(p)[:-3].upper() for p in glob.glob(os.path.join(ROOT, "mc/checks/c*.py")))
    checks, na = [], []
    for p in props:
        pid = p["id"]
        if pid not in have:
            na.append({"property_id": pid, "reason": "check not built yet (see DESIGN.md section 6 build order)"})
            continue
        m = importlib.import_module("mc.checks." + pid.lower())
        checks.append({
            "property_id": pid,
            "quick_cmd": "cd /verif && %s -m mc.run %s --tier quick" % (PY, pid),
            "thorough_cmd": "cd /verif && %s -m mc.run %s --tier thorough" % (PY, pid),
            "evidence_file": "/verif/evidence/%s.json" % pid,
            "replay_cmd_template": "cd /verif && %s -m mc.run %s --replay {path}" % (PY, pid),
            "engine": "mc",
            "level_claimed": {"category": m.LEVEL, "text": m.LEVEL_TEXT, "design_ref": "DESIGN.md section 2, " + pid},
            "level_note": m.LEVEL_NOTE,
            "technique": m.TECHNIQUE,
        })
    man = {
        "version": 1,
        "setup_cmd": "cd /verif && %s -m mc.selftest" % PY,
        "hooks": {
            "guard": "FAIRLEARN_VERIF",
            "enable": "no source hooks: fairlearn is an editable install of /repo, checks import the working tree "
                      "directly and use public extension points (metric callables, estimator=, random_state=, backend=, callbacks=)",
            "baseline_off_cmd": "cd /repo && /venv/bin/python -m pytest -ra -q -p no:cacheprovider --timeout=900 --continue-on-collection-errors",
            "source_commits": [],
            "add_only": True,
        },
        "engines": [{
            "name": "mc", "path": "/verif/mc", "serves_properties": [c["property_id"] for c in checks],
            "kind_free_text": "hand-written stateless bounded-exhaustive explorer for Python: enumerates every input / "
                              "configuration / environment answer / call history below stated bounds on the real code, "
                              "compares with reference models written in Python, 16 forked workers",
        }],
        "checks": checks,
        "not_applicable": na,
        "notes": "Known findings: /verif/known_findings.txt. Seeded breaking changes: /verif/seeded/. "
                 "VERIF_SEED selects a value palette; the structural enumeration is complete for every palette.",
    }
    with open(os.path.join(ROOT, "MANIFEST.json"), "w") as f:
        json.dump(man, f, indent=1)
    print("MANIFEST.json: %d checks, %d not_applicable" % (len(checks), len(na)))


if __name__ == "__main__":
    main()
