"""CLI:  python -m mc.run C14 [--tier quick|thorough] [--seed N]   /   --replay <file>"""
import os

for _v in ("OMP_NUM_THREADS", "MKL_NUM_THREADS", "OPENBLAS_NUM_THREADS", "NUMEXPR_NUM_THREADS"):
    os.environ.setdefault(_v, "1")
os.environ.setdefault("PYTHONDONTWRITEBYTECODE", "1")
os.environ.setdefault("FAIRLEARN_VERIF", "1")
import argparse
import sys

sys.dont_write_bytecode = True

if os.environ.get("PYTHONHASHSEED") != "0":
    os.environ["PYTHONHASHSEED"] = "0"
    os.execv(sys.executable, [sys.executable, "-m", "mc.run"] + sys.argv[1:])

import warnings

warnings.simplefilter("ignore")
import logging

logging.disable(logging.WARNING)  # fairlearn logs grid-size advice through logging
if os.environ.get("VERIF_REPO"):  # mutation experiments on a scratch worktree (never set by registered commands)
    sys.path.insert(0, os.path.realpath(os.environ["VERIF_REPO"]))


def main():
    ap = argparse.ArgumentParser()
    ap.add_argument("pid")
    ap.add_argument("--tier", default=os.environ.get("VERIF_TIER", "quick"))
    ap.add_argument("--seed", type=int, default=int(os.environ.get("VERIF_SEED", "0") or 0))
    ap.add_argument("--replay")
    ap.add_argument("--nproc", type=int, default=None)
    ap.add_argument("--no-confirm", action="store_true")
    a = ap.parse_args()
    from mc import engine

    if a.tier not in ("quick", "thorough"):
        a.tier = "quick"
    if a.replay:
        sys.exit(engine.replay(a.pid.upper(), a.replay))
    sys.exit(engine.run(a.pid.upper(), a.tier, a.seed, nproc=a.nproc, confirm=not a.no_confirm))


if __name__ == "__main__":
    main()
