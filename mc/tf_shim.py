"""A torch-backed stand-in for exactly the tensorflow/keras entry points that fairlearn's TensorflowEngine uses.

tensorflow/keras are not installed in this sandbox, so `_tensorflow_engine.py` cannot run as shipped. `install()`
puts two fake modules into sys.modules (only if the real ones cannot be imported); the REAL
`TensorflowEngine.train_step` / `get_model` / `get_loss` / `get_optimizer` then execute on torch tensors. The shim is
part of the trusted base of the TensorFlow half of C16 and is declared as such in the evidence.
Entry points provided: tensorflow.{GradientTape, concat, norm, reduce_sum, multiply, random.set_seed},
keras.{Model, layers.Dense, initializers.GlorotNormal, activations.deserialize, optimizers.{Optimizer,SGD,Adam},
losses.{BinaryCrossentropy, CategoricalCrossentropy, MeanSquaredError}}.
"""
import sys
import types

import numpy as np


def install():
    if getattr(sys.modules.get("tensorflow"), "__verif_shim__", False):
        return "shim"
    try:
        import tensorflow  # noqa: F401
        import keras  # noqa: F401
        return "real"
    except Exception:
        pass
    import torch

    class T(torch.Tensor):
        def numpy(self):
            return torch.Tensor.numpy(self.detach().as_subclass(torch.Tensor))

    def wrap(t):
        return t.as_subclass(T)

    def _t(a):
        return a if isinstance(a, torch.Tensor) else torch.as_tensor(np.asarray(a), dtype=torch.float32)

    tf = types.ModuleType("tensorflow")
    keras = types.ModuleType("keras")

    class GradientTape:
        def __init__(self, persistent=False):
            pass

        def __enter__(self):
            return self

        def __exit__(self, *a):
            return False

        def gradient(self, loss, vars_):
            gs = torch.autograd.grad(loss, list(vars_), retain_graph=True, allow_unused=True)
            return [wrap(g) if g is not None else wrap(torch.zeros_like(v)) for g, v in zip(gs, vars_)]

    tf.GradientTape = GradientTape
    tf.concat = lambda ts, axis: wrap(torch.cat([_t(t) for t in ts], dim=axis))
    tf.norm = lambda t: torch.norm(t)
    tf.reduce_sum = lambda t: torch.sum(t)
    tf.multiply = lambda a, b: a * b
    tf.random = types.SimpleNamespace(set_seed=lambda s: torch.manual_seed(int(s * 2 ** 31)))

    class Dense:
        def __init__(self, units, kernel_initializer=None, bias_initializer=None):
            self.units = units
            self.W = None

        def __call__(self, x):
            if self.W is None:
                self.W = torch.nn.Parameter(torch.empty(x.shape[1], self.units))
                torch.nn.init.xavier_normal_(self.W)
                self.b = torch.nn.Parameter(torch.zeros(self.units))
            return x @ self.W + self.b

    class Model:
        def __init__(self):
            pass

        def __call__(self, x, training=False):
            return wrap(self.call(_t(x)))

        @property
        def trainable_variables(self):
            out = []
            for layer in self.layers_:
                if isinstance(layer, Dense) and layer.W is not None:
                    out += [layer.W, layer.b]
            return out

    keras.Model = Model
    keras.layers = types.SimpleNamespace(Dense=Dense)
    keras.initializers = types.SimpleNamespace(GlorotNormal=lambda: None)
    keras.activations = types.SimpleNamespace(
        deserialize=lambda s: {"sigmoid": torch.sigmoid, "softmax": lambda x: torch.softmax(x, 1), "relu": torch.relu}[s])

    class Optimizer:
        pass

    class SGD(Optimizer):
        def __init__(self, learning_rate):
            self.lr = learning_rate

        def apply_gradients(self, gv):
            with torch.no_grad():
                for g, v in gv:
                    v -= self.lr * g.as_subclass(torch.Tensor)

    keras.optimizers = types.SimpleNamespace(Optimizer=Optimizer, SGD=SGD, Adam=SGD)

    class BCE:
        def __init__(self, from_logits=False):
            pass

        def __call__(self, y, yh):
            return wrap(torch.nn.functional.binary_cross_entropy(yh.as_subclass(torch.Tensor), _t(y)))

    class CCE:
        def __init__(self, from_logits=False):
            pass

        def __call__(self, y, yh):
            return wrap(-(_t(y) * torch.log(yh.as_subclass(torch.Tensor).clamp_min(1e-7))).sum(1).mean())

    class MSE:
        def __call__(self, y, yh):
            return wrap(((yh.as_subclass(torch.Tensor) - _t(y)) ** 2).mean())

    keras.losses = types.SimpleNamespace(BinaryCrossentropy=BCE, CategoricalCrossentropy=CCE, MeanSquaredError=MSE)
    tf.__verif_shim__ = True
    sys.modules["tensorflow"] = tf
    sys.modules["keras"] = keras
    return "shim"
