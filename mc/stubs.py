"""Harness-side seams (public extension points only): stub estimators, scripted RandomState."""
import numpy as np
from sklearn.base import BaseEstimator, ClassifierMixin, RegressorMixin


class Score(ClassifierMixin, BaseEstimator):
    """Pass-through scorer: predict(X) returns column 0 of X."""

    def fit(self, X, y=None, **kw):
        self.fitted_ = True
        self.classes_ = np.array([0, 1])
        return self

    def predict(self, X):
        return np.asarray(X)[:, 0].astype(float)


def prefit_score():
    return Score().fit(None, None)


class ExactLearner(ClassifierMixin, BaseEstimator):
    """Exact weighted 0/1-error minimiser over the full class {feature value -> {0,1}} (column 0 of X is discrete).

    Ties (equal weight of both labels on a feature value, incl. unseen values) predict 0.
    """

    def fit(self, X, y, sample_weight=None):
        x = np.asarray(X)[:, 0]
        y = np.asarray(y).astype(int).ravel()
        w = np.ones(len(y)) if sample_weight is None else np.asarray(sample_weight, float).ravel()
        self.classes_ = np.array([0, 1])
        self.table_ = {}
        for v in np.unique(x):
            m = x == v
            w1 = w[m & (y == 1)].sum()
            w0 = w[m & (y == 0)].sum()
            self.table_[float(v)] = 1 if w1 > w0 else 0
        self.seen_ = (y.tolist(), w.tolist())
        return self

    def predict(self, X):
        x = np.asarray(X)[:, 0]
        return np.array([self.table_.get(float(v), 0) for v in x])

    def predict_proba(self, X):
        p = self.predict(X).astype(float)
        return np.column_stack([1 - p, p])


class ExactRegressor(RegressorMixin, BaseEstimator):
    """Exact weighted square-loss minimiser over the class {feature value -> levels}."""

    def __init__(self, levels=(0.0, 0.5, 1.0)):
        self.levels = levels

    def fit(self, X, y, sample_weight=None):
        x = np.asarray(X)[:, 0]
        y = np.asarray(y, float).ravel()
        w = np.ones(len(y)) if sample_weight is None else np.asarray(sample_weight, float).ravel()
        self.table_ = {}
        for v in np.unique(x):
            m = x == v
            best, bl = None, None
            for lv in self.levels:
                loss = float((w[m] * (y[m] - lv) ** 2).sum())
                if best is None or loss < best - 1e-15:
                    best, bl = loss, lv
            self.table_[float(v)] = bl
        return self

    def predict(self, X):
        x = np.asarray(X)[:, 0]
        return np.array([self.table_.get(float(v), self.levels[0]) for v in x], float)


class Scripted(np.random.RandomState):
    """RandomState whose uniform draws are supplied by the explorer (script, then a default)."""

    def __init__(self, script=(), default=0.5):
        super().__init__(0)
        self.script = list(script)
        self.default = default
        self.calls = []
        self.uncontrolled = False

    def _u(self, n):
        return np.array([self.script.pop(0) if self.script else self.default for _ in range(n)], float)

    def rand(self, *shape):
        self.calls.append(("rand", shape))
        n = int(np.prod(shape)) if shape else 1
        r = self._u(n)
        return r.reshape(shape) if shape else float(r[0])

    def random_sample(self, size=None):
        self.calls.append(("random_sample", size))
        if size is None:
            return float(self._u(1)[0])
        return self._u(int(np.prod(size))).reshape(size)

    random = random_sample

    def uniform(self, low=0.0, high=1.0, size=None):
        self.calls.append(("uniform", size))
        if size is None:
            return low + (high - low) * float(self._u(1)[0])
        return low + (high - low) * self._u(int(np.prod(size))).reshape(size)

    def choice(self, a, size=None, replace=True, p=None):
        self.calls.append(("choice", size))
        a_ = np.arange(a) if np.isscalar(a) else np.asarray(a)
        p_ = np.full(len(a_), 1 / len(a_)) if p is None else np.asarray(p, float)
        cdf = p_.cumsum()
        cdf /= cdf[-1]
        u = self._u(1 if size is None else int(np.prod(size)))
        idx = cdf.searchsorted(u, side="right")
        idx = np.minimum(idx, len(a_) - 1)
        return a_[idx[0]] if size is None else a_[idx].reshape(size)

    def _bad(self, name):
        self.uncontrolled = True
        self.calls.append((name, None))

    def randint(self, *a, **k):
        self._bad("randint")
        return super().randint(*a, **k)

    def binomial(self, *a, **k):
        self._bad("binomial")
        return super().binomial(*a, **k)

    def permutation(self, *a, **k):
        self._bad("permutation")
        return super().permutation(*a, **k)


class MeanRegressor(RegressorMixin, BaseEstimator):
    """Exact weighted square-loss minimiser over ALL functions of the discrete feature: the weighted mean per feature value."""

    def fit(self, X, y, sample_weight=None):
        x = np.asarray(X)[:, 0]
        y = np.asarray(y, float).ravel()
        w = np.ones(len(y)) if sample_weight is None else np.asarray(sample_weight, float).ravel()
        self.table_ = {}
        for v in np.unique(x):
            m = x == v
            self.table_[float(v)] = float(np.sum(w[m] * y[m]) / np.sum(w[m])) if np.sum(w[m]) > 0 else 0.0
        return self

    def predict(self, X):
        x = np.asarray(X)[:, 0]
        return np.array([self.table_.get(float(v), 0.0) for v in x], float)


class MultiScore(ClassifierMixin, BaseEstimator):
    """Scorer whose three prediction methods return DIFFERENT scores (columns 0, 1, 2 of X): decision_function, predict_proba[:,1], predict."""

    def __init__(self, predict_dtype=None):
        self.predict_dtype = predict_dtype  # None: float64; else the (narrow) dtype of the hard labels returned by predict

    def fit(self, X, y=None, **kw):
        self.fitted_ = True
        self.classes_ = np.array([0, 1])
        return self

    def decision_function(self, X):
        return np.asarray(X)[:, 0].astype(float)

    def predict_proba(self, X):
        p = np.asarray(X)[:, 1].astype(float)
        return np.column_stack([1 - p, p])

    def predict(self, X):
        return np.asarray(X)[:, 2].astype(self.predict_dtype or float)
