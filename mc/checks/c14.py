"""C14 - base rate metrics are weighted confusion-matrix ratios for any binary encoding."""
import itertools

import numpy as np

from mc.engine import close, viol

PROPERTY = "C14"
LEVEL = "exploration"
CHUNK = 8
RULE = ("all (y_true,y_pred) vectors of length 1..n_max over each binary encoding x pos_label choice x "
        "weight vectors (none / every vector over the palette) x container (list, ndarray); reference = "
        "weighted confusion counts by plain loops; non-trivial = both classes occur in y_true or y_pred "
        "or weights are non-uniform; distinct = distinct (encoding,y,p) descriptors")
ASSUMPTIONS = ["values outside the palettes and lengths above the bound are not explored",
               "encodings other than {0,1}/{-1,1} are only exercised with pos_label given (as the statement says)"]
CLASSES = ["single_valued", "no_positive_rows", "no_negative_rows", "n1_weighted", "nonuniform_weights",
           "string_labels"]

ENCODINGS = [(0, 1), (-1, 1), ("a", "b"), (2, 5)]
PALETTES = [(1, 2), (1, 3), (2, 5), (0.5, 1.5)]


def bounds(tier, seed):
    return {"n_max": 4 if tier == "quick" else 5, "encodings": [list(e) for e in ENCODINGS],
            "weight_palette": list(PALETTES[seed % len(PALETTES)]),
            "thorough_extra": "ternary weights for n<=3 and a non-integer palette" if tier != "quick" else None}


def cases(tier, seed):
    n_max = 4 if tier == "quick" else 5
    for e in range(len(ENCODINGS)):
        for n in range(1, n_max + 1):
            for y in itertools.product((0, 1), repeat=n):
                for p in itertools.product((0, 1), repeat=n):
                    yield {"enc": e, "y": list(y), "p": list(p), "tier": tier, "seed": seed}


def _weights(n, tier, seed):
    pal = PALETTES[seed % len(PALETTES)]
    out = [None] + [list(w) for w in itertools.product(pal, repeat=n)]
    if n <= 2:  # fractional weights whose total per class is below 1 (normalised weights)
        out += [list(w) for w in itertools.product((0.25, 0.5), repeat=n)]
    if tier != "quick":
        if n <= 3:
            out += [list(w) for w in itertools.product((1, 2, 3), repeat=n) if 3 in w]
        out += [list(w) for w in itertools.product((0.5, 1.25), repeat=n)] if n <= 4 else []
    return out


def ref_rates(y, p, w, pos):
    tp = fp = fn = tn = 0.0
    for yi, pi, wi in zip(y, p, w):
        if yi == pos and pi == pos:
            tp += wi
        elif yi == pos:
            fn += wi
        elif pi == pos:
            fp += wi
        else:
            tn += wi
    P, N = tp + fn, fp + tn
    return {"true_positive_rate": tp / P if P else 0.0, "false_negative_rate": fn / P if P else 0.0,
            "false_positive_rate": fp / N if N else 0.0, "true_negative_rate": tn / N if N else 0.0,
            "_P": P, "_N": N}


RATES = ["true_positive_rate", "false_negative_rate", "false_positive_rate", "true_negative_rate"]
SWAP = {"true_positive_rate": "true_negative_rate", "true_negative_rate": "true_positive_rate",
        "false_positive_rate": "false_negative_rate", "false_negative_rate": "false_positive_rate"}


def run_case(case):
    import fairlearn.metrics as fm

    enc = ENCODINGS[case["enc"]]
    y = [enc[i] for i in case["y"]]
    p = [enc[i] for i in case["p"]]
    n = len(y)
    out = {"evals": 0, "violations": [], "classes": set(), "outcome": []}
    V = out["violations"]
    vals = set(y) | set(p)
    if len(vals) == 1:
        out["classes"].add("single_valued")
    if isinstance(enc[0], str):
        out["classes"].add("string_labels")
    numeric = not isinstance(enc[0], str)
    default_ok = set(enc) in ({0, 1}, {-1, 1})
    pos_options = [enc[1], enc[0]] + ([None] if default_ok else [])
    nontrivial = len(set(y)) == 2 or len(set(p)) == 2

    def snippet(fn, yy, pp, kw):
        return "import fairlearn.metrics as fm; print(repr(fm.%s(%r, %r, **%r)))" % (fn, yy, pp, kw)

    for w in _weights(n, case["tier"], case["seed"]):
        ww = w if w is not None else [1.0] * n
        if w is not None and len(set(w)) > 1:
            out["classes"].add("nonuniform_weights")
            nontrivial = True
        if w is not None and n == 1:
            out["classes"].add("n1_weighted")
        for cont in ("list", "ndarray"):
            conv = (lambda v: v) if cont == "list" else (lambda v: np.asarray(v))
            yy, pp = conv(y), conv(p)
            wkw = {} if w is None else {"sample_weight": conv(w)}
            per_pos = {}
            for pos in pos_options:
                eff = enc[1] if pos is None else pos
                ref = ref_rates(y, p, ww, eff)
                if ref["_P"] == 0:
                    out["classes"].add("no_positive_rows")
                if ref["_N"] == 0:
                    out["classes"].add("no_negative_rows")
                kw = dict(wkw)
                if pos is not None:
                    kw["pos_label"] = pos
                got = {}
                for name in RATES:
                    out["evals"] += 1
                    try:
                        r = getattr(fm, name)(yy, pp, **kw)
                    except Exception as e:
                        V.append(viol("C14:%s:raises-%s" % (name, type(e).__name__),
                                      "%s raised %r on y=%r p=%r kw=%r" % (name, e, y, p, kw),
                                      ref[name], repr(e), snippet(name, y, p, kw)))
                        continue
                    got[name] = r
                    if np.ndim(r) != 0:
                        V.append(viol("C14:%s:nonscalar" % name, "%s returned non-scalar %r" % (name, r),
                                      ref[name], repr(r), snippet(name, y, p, kw)))
                        continue
                    if not close(r, ref[name]) or not (-1e-12 <= float(r) <= 1 + 1e-12):
                        V.append(viol("C14:%s:value" % name,
                                      "%s=%r expected %r (y=%r p=%r w=%r pos=%r %s)" % (
                                          name, float(r), ref[name], y, p, w, pos, cont),
                                      ref[name], float(r), snippet(name, y, p, kw)))
                per_pos[pos] = got
                if len(got) == 4 and all(np.ndim(v) == 0 for v in got.values()):
                    s1 = float(got["true_positive_rate"]) + float(got["false_negative_rate"])
                    s2 = float(got["true_negative_rate"]) + float(got["false_positive_rate"])
                    e1 = 1.0 if ref["_P"] else 0.0
                    e2 = 1.0 if ref["_N"] else 0.0
                    if not close(s1, e1) or not close(s2, e2):
                        V.append(viol("C14:rates:complement", "TPR+FNR=%r (exp %r), TNR+FPR=%r (exp %r) y=%r p=%r w=%r pos=%r"
                                      % (s1, e1, s2, e2, y, p, w, pos), [e1, e2], [s1, s2]))
                    if w is None and cont == "list":
                        out["outcome"].append([pos, [round(float(got[k]), 9) for k in RATES]])
            # role exchange under pos_label switch
            a, b = per_pos.get(enc[1], {}), per_pos.get(enc[0], {})
            if len(a) == 4 and len(b) == 4:
                for name in RATES:
                    if np.ndim(a[name]) == 0 and np.ndim(b[SWAP[name]]) == 0 and not close(a[name], b[SWAP[name]]):
                        V.append(viol("C14:rates:pos_label-swap", "%s(pos=%r)=%r but %s(pos=%r)=%r y=%r p=%r w=%r" % (
                            name, enc[1], a[name], SWAP[name], enc[0], b[SWAP[name]], y, p, w)))
            # selection_rate
            for pos in [enc[1], enc[0]] + ([None] if enc[1] == 1 else []):
                eff = 1 if pos is None else pos
                kw = dict(wkw)
                if pos is not None:
                    kw["pos_label"] = pos
                exp = sum(wi for pi, wi in zip(p, ww) if pi == eff) / sum(ww)
                out["evals"] += 1
                try:
                    r = fm.selection_rate(yy, pp, **kw)
                except Exception as e:
                    V.append(viol("C14:selection_rate:raises-%s" % type(e).__name__, "selection_rate raised %r y=%r p=%r kw=%r" % (e, y, p, kw),
                                  exp, repr(e), snippet("selection_rate", y, p, kw)))
                    continue
                if np.ndim(r) != 0:
                    V.append(viol("C14:selection_rate:nonscalar", "selection_rate returned non-scalar %r for p=%r kw=%r" % (r, p, kw),
                                  exp, repr(r), snippet("selection_rate", y, p, kw)))
                elif not close(r, exp):
                    V.append(viol("C14:selection_rate:value", "selection_rate=%r expected %r p=%r kw=%r" % (r, exp, p, kw),
                                  exp, float(r), snippet("selection_rate", y, p, kw)))
            # mean_prediction (numeric encodings + a real-valued image of the prediction vector)
            if numeric:
                for pv in (p, [0.25 + 1.5 * i * (1 if v == enc[1] else -1) for i, v in enumerate(p)]):
                    exp = sum(pi * wi for pi, wi in zip(pv, ww)) / sum(ww)
                    out["evals"] += 1
                    try:
                        r = fm.mean_prediction(yy, conv(pv), **wkw)
                    except Exception as e:
                        V.append(viol("C14:mean_prediction:raises-%s" % type(e).__name__, "mean_prediction raised %r p=%r kw=%r" % (e, pv, wkw),
                                      exp, repr(e), snippet("mean_prediction", y, pv, wkw)))
                        continue
                    if w is not None and np.ndim(r) == 0:
                        out["evals"] += 1
                        r2 = fm.mean_prediction(yy, conv(pv), sample_weight=conv([0.5 * v for v in w]))
                        if not close(r2, exp):
                            V.append(viol("C14:mean_prediction:value", "mean_prediction with weights %r = %r expected %r p=%r" % ([0.5 * v for v in w], r2, exp, pv),
                                          exp, float(r2), snippet("mean_prediction", y, pv, {"sample_weight": [0.5 * v for v in w]})))
                    if np.ndim(r) != 0:
                        V.append(viol("C14:mean_prediction:nonscalar", "mean_prediction returned non-scalar %r" % (r,),
                                      exp, repr(r), snippet("mean_prediction", y, pv, wkw)))
                    elif not close(r, exp):
                        V.append(viol("C14:mean_prediction:value", "mean_prediction=%r expected %r p=%r w=%r" % (r, exp, pv, w),
                                      exp, float(r), snippet("mean_prediction", y, pv, wkw)))
            # count
            if w is None:
                out["evals"] += 1
                r = fm.count(yy, pp)
                if np.ndim(r) != 0 or r != n:
                    V.append(viol("C14:count:value", "count=%r expected %r" % (r, n), n, repr(r)))
    out["nontrivial"] = nontrivial
    out["classes"] = sorted(out["classes"])
    return out


def describe(case):
    enc = ENCODINGS[case["enc"]]
    return {"y_true": [enc[i] for i in case["y"]], "y_pred": [enc[i] for i in case["p"]],
            "then": "x pos_label x weight vectors x container, 7 metrics"}

LEVEL_TEXT = ("Every label/prediction vector up to the length bound, in every supported binary encoding, with every weight "
              "vector over the palette, is run through the seven real functions and compared with a loop-based weighted "
              "confusion count; a bounded-exhaustive input enumeration is the right level because the defects live in "
              "degenerate small inputs (single value, single row, empty denominator).")
LEVEL_NOTE = "Trusts CPython/numpy float arithmetic and the 20-line reference; nothing is claimed above the length bound or outside the palettes."
TECHNIQUE = "bounded-exhaustive input enumeration against a reference model (small-scope explicit exploration)"
