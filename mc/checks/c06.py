"""C06 - constraint moments measure exactly the documented parity violations."""
import math

import numpy as np

from mc.checks import _mom_common as MC
from mc.engine import close, viol
from mc.ref.moments import PARITY, err_rate, events_of, ref_gamma, ref_index

PROPERTY = "C06"
LEVEL = "exploration"
CHUNK = 4
RULE = ("all multisets of rows (label, group, stratum) below the bound (2..4 groups, optional control feature with 1..3 strata) x "
        "5 parity moments x bound specifications x predictors {every unit predictor e_i, all-zero, all-one, one soft vector}; "
        "reference: set of (event, group) pairs that occur, per stratum, and the two signed entries computed by loops; compared "
        "with Moment.index as a SET (no missing, no extra constraint), gamma entry-wise, bound() == slack; for r=1 the '+' "
        "entries are cross-checked against MetricFrame by_group-overall; plus BoundedGroupLoss (3 losses, clipping) and ErrorRate "
        "(cost palette). A moment whose conditioned label class does not occur at all is skipped (trivial). non-trivial = >=2 "
        "groups; distinct = distinct multisets")
ASSUMPTIONS = ["event naming ('all', 'label=1', 'control=<c>,<event>') is taken from the documented index format",
               "datasets in which the conditioned label class never occurs are excluded (the moment then has no constraints)"]
CLASSES = ["falsy_control_level", "control_strata", "group_lacks_label_in_event", "single_row_group", "stratum_with_one_group", "ratio_bound", "soft_predictor",
           "metricframe_crosscheck", "bounded_group_loss", "error_rate_costs"]

cases = MC.cases
bounds = MC.bounds
describe = MC.describe
COSTS = [None, {"fp": 2.0, "fn": 1.0}, {"fp": 0.0, "fn": 3.0}]


def run_case(case):
    import fairlearn.reductions as red
    from fairlearn.metrics import MetricFrame, false_positive_rate, selection_rate, true_positive_rate

    y, a, c = MC.data(case)
    n = len(y)
    tier, seed = case["tier"], case["seed"]
    out = {"evals": 0, "violations": [], "classes": set(), "nontrivial": len(set(a)) > 1}
    V = out["violations"]
    if c is not None:
        out["classes"].add("control_strata")
        if any(not v for v in c):
            out["classes"].add("falsy_control_level")
        for s in set(c):
            if len(set(a[i] for i in range(n) if c[i] == s)) == 1:
                out["classes"].add("stratum_with_one_group")
    if any(a.count(g) == 1 for g in set(a)) and n > 1:
        out["classes"].add("single_row_group")
    preds = MC.predictors(n, seed)
    outcome = []
    snipbase = "y=%r; a=%r; c=%r" % (y, a, c)
    for name in PARITY:
        ev = events_of(name, y, c)
        if all(e is None for e in ev):
            continue
        for e_ in set(e for e in ev if e is not None):
            rows_e = [i for i in range(n) if ev[i] == e_]
            stratum = range(n) if c is None else [i for i in range(n) if c[i] == c[rows_e[0]]]
            if set(a[i] for i in rows_e) != set(a[i] for i in stratum):
                out["classes"].add("group_lacks_label_in_event")
        ridx = ref_index(name, y, a, c)
        for spec in MC.bound_specs(tier):
            out["evals"] += 1
            try:
                m, ratio, slack = MC.load(name, spec, y, a, c)
                idx = [tuple(t) for t in m.index]
            except Exception as e:
                V.append(viol("C06:%s:load_data-raises-%s" % (name, type(e).__name__), "%s%r.load_data raised %r (%s)" % (name, spec, e, snipbase)))
                continue
            if spec[0] == "ratio":
                out["classes"].add("ratio_bound")
            if set(idx) != set(ridx) or len(idx) != len(ridx):
                extra = sorted(set(idx) - set(ridx))
                missing = sorted(set(ridx) - set(idx))
                sig = "C06:%s:index-extra-nan-event" % name if extra and all("nan" in str(t[1]) for t in extra) and not missing else "C06:%s:index" % name
                V.append(viol(sig, "%s index has extra %r / lacks %r (%s)" % (name, extra[:4], missing[:4], snipbase),
                              [list(t) for t in ridx], [list(t) for t in idx],
                              "import numpy as np, fairlearn.reductions as r; %s; m=r.%s(); m.load_data(np.zeros((%d,1)), np.array(y), sensitive_features=np.array(a)%s); print(list(m.index))"
                              % (snipbase, name, n, ", control_features=np.array(c)" if c else "")))
            b = m.bound()
            if [tuple(t) for t in b.index] != idx or any(not close(v, slack) for v in b.values):
                V.append(viol("C06:%s:bound" % name, "bound() = %r expected %r on every entry (%s, %r)" % (b.values.tolist(), slack, snipbase, spec)))
            for pname, h in preds:
                out["evals"] += 1
                if pname == "soft":
                    out["classes"].add("soft_predictor")
                g = m.gamma(MC.as_pred(h))
                ref = ref_gamma(name, ratio, y, a, c, h)
                got = {tuple(k): float(v) for k, v in g.items()}
                for k, rv in ref.items():
                    if k not in got:
                        continue  # index mismatch already reported
                    if not close(got[k], rv, 1e-12):
                        V.append(viol("C06:%s:gamma" % name, "%s%r gamma[%r]=%r expected %r for h=%s=%r (%s)" % (name, spec, k, got[k], rv, pname, h, snipbase),
                                      rv, got[k]))
                if spec == MC.bound_specs(tier)[0] and pname in ("soft", "e0"):
                    outcome.append([name, pname, sorted((str(k), round(v, 12)) for k, v in got.items())])
            # cross-check with MetricFrame for r = 1 (hard predictors e_0 and all-one)
            if spec == MC.bound_specs(tier)[0]:
                # further bound forms, checked for index and bound() only (cheap): the configured slack must be reported verbatim, incl. 0
                for ls in (("diff", 0.0, None), ("diff", 0.1, None), ("diff", 0.25, None), ("ratio", 1.0, 0.0), ("ratio", 1.0, 0.05), ("ratio", 0.9, 0.1)):
                    out["evals"] += 1
                    try:
                        m2, _, slack2 = MC.load(name, ls, y, a, c)
                        b2 = m2.bound()
                    except Exception as e:
                        V.append(viol("C06:%s:load_data-raises-%s" % (name, type(e).__name__), "%s%r.load_data raised %r (%s)" % (name, ls, e, snipbase)))
                        continue
                    if set(tuple(t) for t in b2.index) != set(ridx) or any(not close(v, slack2, 0) for v in b2.values):
                        V.append(viol("C06:%s:bound" % name, "%s%r: bound() = %r, configured slack %r (%s)" % (name, ls, sorted(set(b2.values.tolist())), slack2, snipbase), slack2, None))
            if ratio == 1.0 and spec[0] == "default":
                for pname, h in (preds[2:3] if tier == "quick" else preds[1:3]):
                    out["classes"].add("metricframe_crosscheck")
                    hp = [int(v) for v in h]
                    if name == "ErrorRateParity":
                        metric = lambda yt, yp: float(np.mean(np.asarray(yt) != np.asarray(yp)))  # noqa: E731
                    elif name == "DemographicParity":
                        metric = selection_rate
                    elif name == "TruePositiveRateParity":
                        metric = true_positive_rate
                    elif name == "FalsePositiveRateParity":
                        metric = false_positive_rate
                    else:
                        metric = None
                    frames = {}
                    if metric is not None:
                        frames[{"TruePositiveRateParity": "label=1", "FalsePositiveRateParity": "label=0"}.get(name, "all")] = metric
                    else:
                        frames = {"label=1": true_positive_rate, "label=0": false_positive_rate}
                    g = m.gamma(MC.as_pred(h))
                    for evname, met in frames.items():
                        out["evals"] += 1
                        kw = {} if c is None else {"control_features": {"c": c}}
                        mf = MetricFrame(metrics=met, y_true=y, y_pred=hp, sensitive_features={"a": a}, **kw)
                        for k, v in g.items():
                            sign, e_, grp = k
                            if sign != "+":
                                continue
                            base = e_.split(",", 1)[1] if e_.startswith("control=") else e_
                            if base != evname or "nan" in e_:
                                continue
                            if c is None:
                                d = mf.by_group[grp] - mf.overall
                            else:
                                s_ = e_[len("control="):].split(",", 1)[0]
                                s_ = {str(v): v for v in c}[s_]  # back to the original level (may be the integer 0)
                                d = mf.by_group[(s_, grp)] - mf.overall[s_]
                            if not close(float(v), float(d), 1e-12):
                                V.append(viol("C06:%s:metricframe-mismatch" % name, "gamma[%r]=%r but MetricFrame by_group-overall=%r (h=%r, %s)" % (k, float(v), float(d), hp, snipbase)))
    # loss moments
    out["classes"].add("bounded_group_loss")
    yreal = [0.25 * yi + 0.125 * i for i, yi in enumerate(y)]
    X = np.arange(n).reshape(-1, 1)
    for lname, loss, lo, hi in (("SquareLoss", red.SquareLoss(0.25, 0.75), 0.25, 0.75), ("AbsoluteLoss", red.AbsoluteLoss(0.0, 0.5), 0.0, 0.5),
                                ("ZeroOneLoss", red.ZeroOneLoss(), 0.0, 1.0)):
        out["evals"] += 1
        m = red.BoundedGroupLoss(loss, upper_bound=0.3)
        yy = y if lname == "ZeroOneLoss" else yreal
        m.load_data(X, np.array(yy, float), sensitive_features=np.array(a))
        for pname, h in preds:
            g = m.gamma(MC.as_pred(h))
            clip = lambda v: min(max(v, lo), hi)  # noqa: E731
            for grp in sorted(set(a)):
                ids = [i for i in range(n) if a[i] == grp]
                ls = [abs(clip(yy[i]) - clip(h[i])) ** (2 if lname == "SquareLoss" else 1) for i in ids]
                rv = sum(ls) / len(ls)
                if grp not in g.index or not close(float(g[grp]), rv, 1e-12):
                    V.append(viol("C06:BoundedGroupLoss-%s:gamma" % lname, "gamma[%r]=%r expected %r h=%r y=%r a=%r" % (grp, float(g.get(grp, float('nan'))), rv, h, yy, a), rv, None))
            if sorted(g.index) != sorted(set(a)):
                V.append(viol("C06:BoundedGroupLoss:index", "index %r expected groups %r" % (list(g.index), sorted(set(a)))))
        if any(not close(v, 0.3) for v in m.bound().values):
            V.append(viol("C06:BoundedGroupLoss:bound", "bound %r" % m.bound().values.tolist()))
    out["classes"].add("error_rate_costs")
    for costs in COSTS:
        out["evals"] += 1
        m = red.ErrorRate(costs=costs) if costs else red.ErrorRate()
        m.load_data(X, np.array(y), sensitive_features=np.array(a))
        fp, fn = (costs["fp"], costs["fn"]) if costs else (1.0, 1.0)
        for pname, h in preds:
            g = m.gamma(MC.as_pred(h))
            rv = err_rate(y, h, fp, fn)
            if len(g) != 1 or not close(float(g.iloc[0]), rv, 1e-12):
                V.append(viol("C06:ErrorRate:gamma", "ErrorRate(costs=%r).gamma=%r expected %r h=%r y=%r" % (costs, g.values.tolist(), rv, h, y), rv, None))
    out["outcome"] = outcome
    out["classes"] = sorted(out["classes"])
    return out


LEVEL_TEXT = ("Every small dataset (incl. groups lacking a label inside an event, single-group strata, single-row groups) is loaded into "
              "each real moment with each bound form and gamma is evaluated on a basis of predictors; index (as a set), every gamma "
              "entry and bound() are compared with a loop-based reference and, for r=1, with MetricFrame. gamma is affine in h, so the "
              "unit-predictor basis plus zero decides it for all soft predictors; exhaustive small-scope enumeration reaches the "
              "missing-pair and control-feature structures the two fixed test datasets never contain.")
LEVEL_NOTE = "Trusts the 25-line reference in mc/ref/moments.py; event names follow the documented index format."
TECHNIQUE = "bounded-exhaustive enumeration of datasets x moments x bounds x predictor basis against a reference model"
