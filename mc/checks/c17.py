"""C17 - adversarial fit is the documented step schedule; predict stays in label space (model_checking)."""
import itertools
from math import ceil

import numpy as np

from mc.engine import jhash, viol

PROPERTY = "C17"
LEVEL = "model_checking"
CHUNK = 16
RULE = ("state machine (epoch, batch, n_iter, stopped) with events {train step on rows [lo,hi), callback k -> True/False, max_iter "
        "exhaustion}; reference model = a 15-line schedule generator transcribing the statement. Enumerated: n in 1..N, batch_size in "
        "{-1,1,2,3,n-1,n,n+1,2n}, epochs in {1,2,3,-1}, max_iter in {-1,1..M}, callbacks none / one / two with every stop step in "
        "range (epochs=-1 and max_iter=-1 must raise). Every event trace of the real fit(shuffle=False), recorded by a spying "
        "backend subclass and the callbacks, must equal the model trace and n_iter_ the model count; a second identically configured "
        "estimator driven through partial_fit on the model's slices must end with bit-identical predictor and adversary tensors. "
        "predict: for 4 binary encodings, 2 three-class encodings and continuous targets a pass-through predictor module makes "
        "_raw_predict return prescribed outputs (grid containing 0.5-2^-20, 0.5, 0.5+2^-20 and every arg-max position); predict must "
        "return the positive class iff raw >= 0.5 / the arg-max class / the raw value. states = (schedule, position) pairs; "
        "transitions = events; traces = schedules executed on the implementation")
ASSUMPTIONS = ["shuffle=False (as the statement says); torch backend", "classification schedules are only run when the first slice contains every class (documented requirement)"]
CLASSES = ["max_iter_exhausted", "callback_stop", "two_callbacks", "batch_not_dividing_n", "batch_larger_than_n", "epochs_minus_one",
           "must_raise", "partial_fit_equivalence", "classifier_schedule", "predict_boundary", "predict_argmax", "predict_strings"]
NONDETERMINISM_IS_VIOLATION = False


def bounds(tier, seed):
    return {"n": "1..4" if tier == "quick" else "1..7", "max_iter": [-1, 1, 2, 3, 5] if tier == "quick" else [-1, 1, 2, 3, 4, 5, 6, 7],
            "epochs": [1, 2, 3, -1], "callbacks": "none / one (stop in never,1..) / two (stop pairs)"}


def schedule(n, bs, epochs, max_iter, stops):
    """Reference model: list of events and the final step count."""
    if epochs == -1 and max_iter == -1:
        return None, None
    b = n if bs == -1 else bs
    batches = ceil(n / b)
    E = ceil(max_iter / batches) if epochs == -1 else epochs
    ev, it = [], 0
    for _ in range(E):
        for k in range(batches):
            ev.append(["step", k * b, min((k + 1) * b, n)])
            it += 1
            if max_iter != -1 and it >= max_iter:
                return ev, it
            stop = False
            for ci, s in enumerate(stops):
                ev.append(["cb", ci, it])
                stop = stop or (s == it)
            if stop:
                return ev, it
    return ev, it


def cases(tier, seed):
    N = 4 if tier == "quick" else 7
    MI = [-1, 1, 2, 3, 5] if tier == "quick" else [-1, 1, 2, 3, 4, 5, 6, 7]
    S1 = [None, 1, 2, 3, 5] if tier == "quick" else [None, 1, 2, 3, 4, 5, 6]
    S2 = [(2, None), (None, 3)] if tier == "quick" else [(a, b) for a in (None, 2, 4) for b in (None, 2, 4)]
    for n in range(1, N + 1):
        for bs in sorted(set(v for v in (-1, 1, 2, 3, n - 1, n, n + 1, 2 * n) if v == -1 or v >= 1)):
            for ep in (1, 2, 3, -1):
                for mi in MI:
                    for stops in [[]] + [[s] for s in S1] + [list(p) for p in S2]:
                        yield {"kind": "sched", "n": n, "bs": bs, "ep": ep, "mi": mi, "stops": stops}
    for enc in range(7):
        yield {"kind": "predict", "enc": enc}
        if ENCODINGS[enc][0] != "cont":
            # histories other than one fit: a single partial_fit that names the classes in reverse order, and a fit on
            # *other* labels followed by a fit on these (predict must follow the last training labels; seeded change C17d)
            yield {"kind": "predict", "enc": enc, "hist": "partial_fit_reversed_classes"}
            yield {"kind": "predict", "enc": enc, "hist": "fit_other_labels_then_fit"}
    for enc in range(3):
        yield {"kind": "predict_trained", "enc": enc}


def describe(case):
    return case


_TRACE = []


def _spy():
    import torch

    from fairlearn.adversarial._pytorch_engine import PytorchEngine

    class Spy(PytorchEngine):
        def train_step(self, X, Y, A):
            ids = [int(round(float(v))) for v in X[:, 0].tolist()]
            _TRACE.append(["step", ids[0], ids[-1] + 1] if ids == list(range(ids[0], ids[0] + len(ids))) else ["step-nonconsecutive", ids])
            return super().train_step(X, Y, A)
    return Spy, torch


def _params(e):
    return [p.detach().clone() for p in e.backendEngine_.predictor_model.parameters()] + \
           [p.detach().clone() for p in e.backendEngine_.adversary_model.parameters()]


def _run_sched(case):
    from fairlearn.adversarial import AdversarialFairnessClassifier, AdversarialFairnessRegressor

    Spy, torch = _spy()
    torch.set_num_threads(1)
    n, bs, ep, mi, stops = case["n"], case["bs"], case["ep"], case["mi"], case["stops"]
    out = {"evals": 0, "violations": [], "classes": set(), "states": [], "transitions": 0, "traces": 0, "nontrivial": True}
    V = out["violations"]
    model, count = schedule(n, bs, ep, mi, stops)
    b = n if bs == -1 else bs
    if b > n:
        out["classes"].add("batch_larger_than_n")
    elif n % b:
        out["classes"].add("batch_not_dividing_n")
    if ep == -1:
        out["classes"].add("epochs_minus_one")
    if len(stops) == 2:
        out["classes"].add("two_callbacks")
    X = np.array([[float(i), 0.5 * ((i * 3) % 4) - 0.7] for i in range(n)])
    variants = [("reg", AdversarialFairnessRegressor, np.array([0.3 + 0.41 * ((i * 2) % 5) for i in range(n)]), np.array([0.9 - 0.37 * (i % 3) for i in range(n)]))]
    if min(b, n) >= 2:
        variants.append(("clf", AdversarialFairnessClassifier, np.array([i % 2 for i in range(n)]), np.array(["ab"[((i + 1) // 2) % 2] for i in range(n)])))
    outcome = []
    for vname, Est, y, A in variants:
        if vname == "clf":
            out["classes"].add("classifier_schedule")
        ctx = "%s n=%d batch_size=%d epochs=%d max_iter=%d callback stop steps=%r" % (vname, n, bs, ep, mi, stops)
        del _TRACE[:]

        def mk_cb(ci, s):
            def cb(est, step=None, **kw):
                _TRACE.append(["cb", ci, step])
                return s == step
            return cb
        cbs = [mk_cb(ci, s) for ci, s in enumerate(stops)]
        kw = dict(backend=Spy, predictor_model=[2], adversary_model=[2], predictor_optimizer="SGD", adversary_optimizer="SGD", learning_rate=0.1,
                  batch_size=bs, epochs=ep, shuffle=False, random_state=0)
        e1 = Est(callbacks=(cbs if len(cbs) != 1 else cbs[0]) if cbs else None, **kw)
        e1.max_iter = mi  # the public subclasses do not forward max_iter through __init__; it is a plain attribute of the base class
        out["evals"] += 1
        out["traces"] += 1
        try:
            e1.fit(X, y, sensitive_features=A)
            raised = None
        except Exception as ex:
            raised = ex
        if model is None:
            out["classes"].add("must_raise")
            if raised is None:
                V.append(viol("C17:no-bound:accepted", "fit with epochs=-1 and max_iter=-1 returned instead of raising (%s)" % ctx))
            continue
        if raised is not None:
            V.append(viol("C17:fit-raises-%s" % type(raised).__name__, "fit raised %r (%s)" % (raised, ctx)))
            continue
        trace = [list(t) for t in _TRACE]
        out["transitions"] += len(trace)
        for pos in range(len(model) + 1):
            out["states"].append(jhash([n, bs, ep, mi, stops, pos]))
        if mi != -1 and count >= mi:
            out["classes"].add("max_iter_exhausted")
        if any(s is not None and s <= count for s in stops) and not (mi != -1 and count >= mi):
            out["classes"].add("callback_stop")
        if trace != model:
            k = next((i for i in range(min(len(trace), len(model))) if trace[i] != model[i]), min(len(trace), len(model)))
            kind = "steps" if [t for t in trace if t[0] != "cb"] != [t for t in model if t[0] != "cb"] else "callbacks"
            V.append(viol("C17:schedule:%s" % kind, "event trace deviates from the documented schedule at position %d: observed %r, model %r (%s)" % (
                k, trace[k:k + 3], model[k:k + 3], ctx), model, trace))
            continue
        if e1.n_iter_ != count:
            V.append(viol("C17:n_iter", "n_iter_=%r, model count %r (%s)" % (e1.n_iter_, count, ctx), count, e1.n_iter_))
        # history equivalence through partial_fit
        e2 = Est(**dict(kw, backend="torch"))
        out["classes"].add("partial_fit_equivalence")
        try:
            first = True
            for ev in model:
                if ev[0] != "step":
                    continue
                lo, hi = ev[1], ev[2]
                if first and vname == "clf":
                    e2.partial_fit(X[lo:hi], y[lo:hi], classes=np.unique(y), sensitive_features=A[lo:hi])
                else:
                    e2.partial_fit(X[lo:hi], y[lo:hi], sensitive_features=A[lo:hi])
                first = False
                out["transitions"] += 1
        except Exception as ex:
            V.append(viol("C17:partial_fit-raises-%s" % type(ex).__name__, "partial_fit on the model's slices raised %r (%s)" % (ex, ctx)))
            continue
        p1, p2 = _params(e1), _params(e2)
        if len(p1) != len(p2) or any(not torch.equal(u, v) for u, v in zip(p1, p2)):
            d = max(float((u - v).abs().max()) for u, v in zip(p1, p2)) if len(p1) == len(p2) else None
            V.append(viol("C17:fit-vs-partial_fit", "model after fit differs from the same slices through partial_fit (max abs diff %r) (%s)" % (d, ctx)))
        outcome.append([vname, count, len(trace)])
    out["outcome"] = outcome
    out["classes"] = sorted(out["classes"])
    return out


ENCODINGS = [("binary", [0, 1]), ("binary", [-1, 1]), ("binary", [2, 5]), ("binary", ["no", "yes"]), ("multi", [0, 1, 2]),
             ("multi", ["x", "y", "z"]), ("cont", None)]


def _run_predict(case):
    import torch

    from fairlearn.adversarial import AdversarialFairnessClassifier, AdversarialFairnessRegressor

    torch.set_num_threads(1)
    kind, labels = ENCODINGS[case["enc"]]
    out = {"evals": 0, "violations": [], "classes": set(), "states": [], "transitions": 0, "traces": 0, "nontrivial": True}
    V = out["violations"]

    class Pass(torch.nn.Module):
        def __init__(self, k):
            super().__init__()
            self.b = torch.nn.Parameter(torch.zeros(1))
            self.k = k

        def forward(self, x):
            return x[:, :self.k] + self.b
    eps = 2.0 ** -20
    if kind == "binary":
        out["classes"].add("predict_boundary")
        grid = [0.01, 0.25, 0.5 - eps, 0.5, 0.5 + eps, 0.75, 0.99, 0.5 - 2 * eps, 0.5 + 2 * eps, 0.4999, 0.5001]
        X = np.array([[v] for v in grid])
        y = np.array([labels[i % 2] for i in range(len(grid))])
        k = 1
    elif kind == "multi":
        out["classes"].add("predict_argmax")
        rows = [(0.7, 0.2, 0.1), (0.2, 0.5, 0.3), (0.2, 0.3, 0.5), (0.9, 0.05, 0.05), (0.3, 0.3, 0.4), (0.02, 0.96, 0.02), (0.34, 0.33, 0.33),
                (0.33, 0.34, 0.33), (0.33, 0.33, 0.34), (0.4, 0.4 - eps, 0.2 + eps), (0.4 - eps, 0.4, 0.2 + eps)]
        X = np.array(rows)
        y = np.array([labels[i % 3] for i in range(len(rows))])
        k = 3
    else:
        grid = [0.3, -1.25, 7.5, 0.0, 0.5, 0.5 + eps]
        X = np.array([[v] for v in grid])
        y = np.array([0.11 + 0.37 * i for i in range(len(grid))])
        k = 1
    if labels and isinstance(labels[0], str):
        out["classes"].add("predict_strings")
    A = np.array(["ab"[i % 2] for i in range(len(X))])
    Est = AdversarialFairnessRegressor if kind == "cont" else AdversarialFairnessClassifier
    e = Est(backend="torch", predictor_model=Pass(k), adversary_model=[2], predictor_optimizer="SGD", adversary_optimizer="SGD", learning_rate=0.0,
            batch_size=-1, epochs=1, shuffle=False, random_state=0)
    out["evals"] += 1
    out["traces"] += 1
    hist = case.get("hist", "fit")
    if hist == "partial_fit_reversed_classes":
        out["classes"].add("predict_after_partial_fit_reversed_classes")
        e.partial_fit(X, y, classes=list(reversed(labels)), sensitive_features=A)
    elif hist == "fit_other_labels_then_fit":
        out["classes"].add("predict_after_refit_other_labels")
        other = {"binary": ["q", "r"] if not isinstance(labels[0], str) else [7, 9],
                 "multi": ["p", "q", "r"] if not isinstance(labels[0], str) else [7, 8, 9]}[kind]
        e.fit(X, np.array([other[i % len(other)] for i in range(len(X))]), sensitive_features=A)
        out["transitions"] += 1
        e.fit(X, y, sensitive_features=A)
    else:
        e.fit(X, y, sensitive_features=A)
    raw = np.asarray(e._raw_predict(X), float)
    pred = np.asarray(e.predict(X))
    out["transitions"] += 2
    out["states"] = [jhash(["predict", case["enc"], hist, i]) for i in range(len(X))]
    ctx = "history=%s labels=%r raw outputs=%r" % (hist, labels, raw.round(8).tolist())
    if not np.allclose(raw[:, :k], X[:, :k].astype(np.float32), atol=1e-6):
        V.append(viol("C17:raw-predict", "pass-through predictor does not return its input (%s)" % ctx))
    if kind == "binary":
        exp = [labels[1] if np.float32(X[i, 0]) >= np.float32(0.5) else labels[0] for i in range(len(X))]
        if [str(v) for v in pred.tolist()] != [str(v) for v in exp] or pred.shape != (len(X),):
            V.append(viol("C17:predict:binary-threshold", "predict=%r expected %r (positive class iff raw >= 0.5) (%s)" % (pred.tolist(), exp, ctx), exp, pred.tolist()))
    elif kind == "multi":
        Xf = X.astype(np.float32)
        exp = [labels[int(np.argmax(Xf[i]))] for i in range(len(X))]
        if [str(v) for v in pred.tolist()] != [str(v) for v in exp]:
            V.append(viol("C17:predict:argmax", "predict=%r expected arg-max classes %r (%s)" % (pred.tolist(), exp, ctx), exp, pred.tolist()))
    else:
        if not np.allclose(np.asarray(pred, float).ravel(), raw.ravel(), rtol=0, atol=0):
            V.append(viol("C17:predict:regression-raw", "predict=%r differs from the raw output %r" % (pred.tolist(), raw.ravel().tolist())))
    if kind != "cont" and not set(str(v) for v in pred.tolist()) <= set(str(v) for v in labels):
        V.append(viol("C17:predict:outside-label-set", "predict returned %r, training labels %r" % (sorted(set(pred.tolist())), labels)))
    if kind != "cont" and np.asarray(pred).dtype.kind != np.asarray(y).dtype.kind:
        V.append(viol("C17:predict:dtype-kind", "predict dtype %s, training label dtype %s" % (np.asarray(pred).dtype, np.asarray(y).dtype)))
    out["outcome"] = [str(v) for v in pred.tolist()]
    out["classes"] = sorted(out["classes"])
    return out


def _run_predict_trained(case):
    import torch

    from fairlearn.adversarial import AdversarialFairnessClassifier

    torch.set_num_threads(1)
    out = {"evals": 1, "violations": [], "classes": set(), "states": [], "transitions": 0, "traces": 1, "nontrivial": True}
    V = out["violations"]
    kind, labels = [ENCODINGS[1], ENCODINGS[3], ENCODINGS[5]][case["enc"]]
    X = np.array([[0.0, 1], [1, 0], [1, 1], [0, 0], [2, 1], [1, 2], [2, 2], [0.5, 1.5]])
    y = np.array([labels[i % len(labels)] for i in range(len(X))])
    A = np.array(["ab"[(i // 2) % 2] for i in range(len(X))])
    e = AdversarialFairnessClassifier(backend="torch", predictor_model=[3], adversary_model=[2], predictor_optimizer="SGD", adversary_optimizer="SGD",
                                      learning_rate=0.3, batch_size=3, epochs=4, shuffle=False, random_state=0)
    e.fit(X, y, sensitive_features=A)
    g = np.linspace(-3, 3, 25)
    P = np.array([[a, b] for a in g for b in g])
    raw = np.asarray(e._raw_predict(P), float)
    pred = np.asarray(e.predict(P))
    out["transitions"] = 2
    out["states"] = [jhash(["trained", case["enc"]])]
    cls = sorted(set(labels))
    if kind == "binary":
        exp = [cls[1] if raw[i, 0] >= 0.5 else cls[0] for i in range(len(P))]
    else:
        exp = [cls[int(np.argmax(raw[i]))] for i in range(len(P))]
    if [str(v) for v in pred.tolist()] != [str(v) for v in exp]:
        bad = [i for i in range(len(P)) if str(pred[i]) != str(exp[i])][:3]
        V.append(viol("C17:predict:trained-network", "predict disagrees with threshold/arg-max of _raw_predict at probe rows %r: %r vs %r (labels %r)" % (
            bad, [pred[i] for i in bad], [exp[i] for i in bad], labels)))
    out["outcome"] = [str(v) for v in pred.tolist()[:20]]
    return out


def run_case(case):
    return {"sched": _run_sched, "predict": _run_predict, "predict_trained": _run_predict_trained}[case["kind"]](case)


LEVEL_TEXT = ("The training loop is a small deterministic state machine; its reference model is a 15-line generator written from the "
              "statement, and EVERY schedule in the bounded space (n x batch_size x epochs x max_iter x callback stop points, incl. "
              "batch sizes that do not divide or exceed n and budgets that end mid-epoch) is executed on the real fit, the observed event "
              "trace compared step by step with the model trace, and the end state compared bit-for-bit with the same slices issued "
              "through partial_fit. predict's decision boundary is probed at 0.5 +- 2^-20 and at every arg-max position for seven label "
              "encodings.")
LEVEL_NOTE = "Trusts the schedule generator (reviewed against the statement) and the spying backend subclass (records slices via an id column of X)."
TECHNIQUE = "explicit-state model checking of the training-schedule state machine: every model trace replayed on the implementation (conformance), plus differential history check"
