"""C18 - bootstrap intervals are reproducible, ordered and shaped like the estimates (model_checking)."""
import itertools
import json
import math
import os
import subprocess
import sys

import numpy as np
import pandas as pd

from mc.engine import close, jhash, viol
from mc.ref.metrics import as_tuple, ref_aggregates

PROPERTY = "C18"
LEVEL = "model_checking"
CHUNK = 2
NONDETERMINISM_IS_VIOLATION = True  # "identical across runs with the same integer random_state" is part of the statement
RULE = ("layer A (real generator): every multiset of n rows over 3 binary features x 3 layouts (1 sensitive / 2 sensitive / "
        "1 sensitive + 1 control) x {bare callable, dict of 5 metrics} x configurations at deviation distance <=1 from "
        "(n_boot=10, quantiles=[0.1,0.9], seed=0): n_boot in {1,2,3}, 4 other quantile lists (incl. unsorted), other integer "
        "seeds, RandomState seed; API-level relations of the statement. layer B (owned environment): pandas.DataFrame.sample "
        "is intercepted and the explorer supplies EVERY resample vector in {0..n-1}^n (n_boot=1) and every ordered pair "
        "(n_boot=2); each *_ci entry must equal the metric of that resample (n_boot=1) or lie between the two resample values. "
        "states = (dataset, layout, form, resample tuple | configuration); transitions = MetricFrame constructions")
ASSUMPTIONS = ["layer B relies on the bootstrap calling pandas.DataFrame.sample once per resample; if it is not called exactly n_boot times "
               "layer B reports inapplicable and layer A alone decides",
               "the 'resamples differ' facts are deterministic facts about the fixed seed list 0..K on the fixed datasets"]
CLASSES = ["layerA", "layerB_nboot1", "layerB_nboot2", "unsorted_quantiles", "randomstate_seed", "control_feature"]
# classes whose occurrence depends on implementation internals (reported, warned about when absent, never a hard vacuity error)
SOFT_CLASSES = ["group_absent_from_resample"]

QLISTS = [[0.1, 0.9], [0.5], [0.9, 0.1], [0.01, 0.5, 0.99], [0.001, 0.999]]
LAYOUTS = ["s1", "s2", "s1c1"]


def bounds(tier, seed):
    return {"layerA_n": [2, 3] if tier == "quick" else [2, 3, 4], "seeds": 4 if tier == "quick" else 16,
            "layerB": "n_boot=1: all n^n resamples n<=3 (thorough n<=4); n_boot=2: all ordered pairs n<=2 (thorough n<=3)",
            "quantile_lists": QLISTS, "seed_offset": seed}


def cases(tier, seed):
    ns = [2, 3] if tier == "quick" else [2, 3, 4]
    for n in ns:
        for ms in itertools.combinations_with_replacement(range(8), n):
            if tier == "quick" and n == 3 and ms[0] != 0:
                continue  # quick: n=3 only up to relabelling of each binary feature (first row all-zero)
            for lay in LAYOUTS:
                yield {"kind": "A", "assign": list(ms), "layout": lay, "tier": tier, "seed": seed}
    for n in (5, 6, 7, 10):  # resample size: round(frac*n) differs from n only for larger n
        yield {"kind": "A", "assign": [(3 * i) % 8 for i in range(n)], "layout": "s1", "tier": tier, "seed": seed, "only_default": True}
    # layer B datasets: fixed small set of assignments exercising empty intersections / single groups
    nb1 = [2, 3] if tier == "quick" else [2, 3, 4]
    nb2 = [2] if tier == "quick" else [2, 3]
    for n in nb1:
        for ms in _b_datasets(n):
            for lay in LAYOUTS:
                yield {"kind": "B", "assign": ms, "layout": lay, "n_boot": 1}
    for n in nb2:
        for ms in _b_datasets(n):
            for lay in LAYOUTS:
                yield {"kind": "B", "assign": ms, "layout": lay, "n_boot": 2}


def _b_datasets(n):
    base = {2: [[0, 1], [0, 3], [5, 2], [0, 0]], 3: [[0, 1, 2], [0, 3, 5], [1, 1, 6], [0, 7, 7]],
            4: [[0, 1, 2, 3], [0, 3, 5, 6], [1, 1, 6, 6]]}
    return base[n]


def _features(assign, layout):
    sf1 = ["ab"[a & 1] for a in assign]
    sf2 = ["xy"[(a >> 1) & 1] for a in assign]
    cf = ["uv"[(a >> 2) & 1] for a in assign]
    if layout == "s1":
        return dict(sensitive_features={"s1": sf1}), [sf1], 0
    if layout == "s2":
        return dict(sensitive_features={"s1": sf1, "s2": sf2}), [sf1, sf2], 0
    return dict(sensitive_features={"s1": sf1}, control_features={"c1": cf}), [cf, sf1], 1


# ---- metrics ---------------------------------------------------------------------------------
def m_distinct(y_true, y_pred):
    return float(len(set(int(i) for i in y_true)))


def m_const(y_true, y_pred):
    return 3.0


def m_meanid(y_true, y_pred):
    return float(np.mean([int(i) for i in y_true]))


def m_sr(y_true, y_pred):
    return float(np.mean([int(p) for p in y_pred]))


_NDATA = [0]


def m_subset(y_true, y_pred):
    return 1.0 if all(0 <= int(i) < _NDATA[0] for i in y_true) else 0.0


def m_count(y_true, y_pred):
    return float(len(y_true))


DICT = {"n": m_count, "c": m_const, "sr": m_sr, "d": m_distinct, "sub": m_subset, "mid": m_meanid}


def _leq(a, b):
    A = np.asarray(a, float)
    B = np.asarray(b, float)
    m = ~(np.isnan(A) | np.isnan(B))
    return bool((A[m] <= B[m] + 1e-12).all())


def _same(a, b):
    if isinstance(a, (pd.Series, pd.DataFrame)):
        return (type(a) is type(b) and a.shape == b.shape and list(a.index) == list(b.index)
                and np.allclose(np.asarray(a, float), np.asarray(b, float), rtol=0, atol=0, equal_nan=True))
    return bool(np.isclose(a, b, rtol=0, atol=0, equal_nan=True))


def _all_results(mf):
    pairs = [("overall", mf.overall, mf.overall_ci), ("by_group", mf.by_group, mf.by_group_ci),
             ("group_min", mf.group_min(), mf.group_min_ci()), ("group_max", mf.group_max(), mf.group_max_ci())]
    for m in ("between_groups", "to_overall"):
        pairs.append(("difference_" + m, mf.difference(method=m), mf.difference_ci(method=m)))
        pairs.append(("ratio_" + m, mf.ratio(method=m), mf.ratio_ci(method=m)))
    return pairs


def _digest(mf):
    out = []
    for name, pt, ci in _all_results(mf):
        for c in ci:
            out.append([name, np.asarray(c, float).round(12).tolist()])
    return jhash(json.loads(json.dumps(out).replace("NaN", '"nan"')))


def _build(assign, layout, form, n_boot, qs, seed):
    from fairlearn.metrics import MetricFrame

    n = len(assign)
    _NDATA[0] = n
    ids = np.arange(n)
    yp = np.array([i % 2 for i in range(n)])
    kw, cols, ncontrol = _features(assign, layout)
    metrics = m_meanid if form == "callable" else dict(DICT)
    return MetricFrame(metrics=metrics, y_true=ids, y_pred=yp, n_boot=n_boot, ci_quantiles=qs, random_state=seed, **kw)


def prepare(tier, seed):
    """Cross-process reproducibility: the digest of a few frames must be identical in a fresh interpreter."""
    probe = [([0, 3, 5], "s1c1", "dict"), ([0, 1, 2], "s2", "callable"), ([1, 6], "s1", "dict")]
    here = [_digest(_build(a, l, f, 10, [0.1, 0.9], 3)) for a, l, f in probe]
    code = ("import os, sys; os.environ.get('VERIF_REPO') and sys.path.insert(0, os.environ['VERIF_REPO']); import warnings; warnings.simplefilter('ignore'); from mc.checks import c18; "
            "print([c18._digest(c18._build(a,l,f,10,[0.1,0.9],3)) for a,l,f in %r])" % (probe,))
    env = dict(os.environ)
    env.pop("PYTHONHASHSEED", None)
    p = subprocess.run([sys.executable, "-c", code], capture_output=True, text=True, env=env,
                       cwd=os.path.dirname(os.path.dirname(os.path.dirname(os.path.abspath(__file__)))))
    global _FRESH_OK
    _FRESH_OK = (p.returncode == 0 and p.stdout.strip().splitlines()[-1] == repr(here))
    if p.returncode != 0:
        raise RuntimeError("fresh-process probe failed: " + p.stderr[-400:])


_FRESH_OK = True


def run_case(case):
    if case["kind"] == "A":
        return _run_a(case)
    return _run_b(case)


def _configs(tier, seed):
    K = 4 if tier == "quick" else 16
    nb0 = 4 if tier == "quick" else 10
    base = {"n_boot": nb0, "qs": QLISTS[0], "seed": seed * 100}
    out = [dict(base)]
    for nb in (1, 2, 3 if tier != "quick" else 10, 10):
        if nb != nb0 and dict(base, n_boot=nb) not in out:
            out.append(dict(base, n_boot=nb))
    for q in QLISTS[1:4]:
        out.append(dict(base, qs=q))
    out.append(dict(base, qs=QLISTS[4], n_boot=10))
    for s in range(1, K):
        out.append(dict(base, seed=seed * 100 + s))
    out.append(dict(base, seed="RandomState"))
    return out


def _run_a(case):
    assign, layout, tier = case["assign"], case["layout"], case["tier"]
    n = len(assign)
    out = {"evals": 0, "violations": [], "classes": {"layerA"}, "states": [], "transitions": 0, "traces": 0,
           "nontrivial": True}
    V = out["violations"]
    if not _FRESH_OK:
        V.append(viol("C18:fresh-process:differs", "same integer random_state gives different intervals in a fresh interpreter"))
    if layout == "s1c1":
        out["classes"].add("control_feature")
    outcome = []
    for form in ("callable", "dict"):
        for cfg in (_configs(tier, case["seed"])[:2] if case.get("only_default") else _configs(tier, case["seed"])):
            qs = cfg["qs"]
            sd = cfg["seed"]
            if qs == [0.9, 0.1]:
                out["classes"].add("unsorted_quantiles")
            mk_seed = (lambda: np.random.RandomState(17)) if sd == "RandomState" else (lambda: sd)
            if sd == "RandomState":
                out["classes"].add("randomstate_seed")
            ctx = "assign=%r layout=%s form=%s n_boot=%r quantiles=%r seed=%r" % (assign, layout, form, cfg["n_boot"], qs, sd)
            out["evals"] += 1
            out["transitions"] += 1
            out["traces"] += 1
            out["states"].append(jhash([assign, layout, form, cfg["n_boot"], qs, str(sd)]))
            try:
                mf = _build(assign, layout, form, cfg["n_boot"], qs, mk_seed())
                res = _all_results(mf)
            except Exception as e:
                V.append(viol("C18:construct:raises-%s" % type(e).__name__, "MetricFrame with bootstrap raised %r (%s)" % (e, ctx)))
                continue
            is_default = cfg == _configs(tier, case["seed"])[0]
            is_nb10 = cfg["n_boot"] == 10 and qs == QLISTS[0]
            if is_default:
                out["evals"] += 1
                mf2 = _build(assign, layout, form, cfg["n_boot"], qs, mk_seed())
                res2 = _all_results(mf2)
            for ri, (name, pt, ci) in enumerate(res):
                if not isinstance(ci, list) or len(ci) != len(qs):
                    V.append(viol("C18:%s:length" % name, "%s_ci is %s of length %s, expected list of %d (%s)" % (
                        name, type(ci).__name__, len(ci) if hasattr(ci, "__len__") else "?", len(qs), ctx)))
                    continue
                for k, c in enumerate(ci):
                    if type(c) is not type(pt) and not (np.ndim(c) == 0 and np.ndim(pt) == 0):
                        V.append(viol("C18:%s:type" % name, "%s_ci[%d] is %s, point estimate is %s (%s)" % (
                            name, k, type(c).__name__, type(pt).__name__, ctx)))
                        continue
                    if isinstance(pt, pd.DataFrame) and list(c.columns) != list(pt.columns):
                        V.append(viol("C18:%s:columns" % name, "columns %r vs %r (%s)" % (list(c.columns), list(pt.columns), ctx)))
                    if isinstance(pt, (pd.Series, pd.DataFrame)):
                        if not set(c.index) <= set(pt.index) or len(set(c.index)) != len(c.index):
                            V.append(viol("C18:%s:index" % name, "ci index %r not within point index %r (%s)" % (list(c.index), list(pt.index), ctx)))
                        if name != "by_group" and list(c.index) != list(pt.index):
                            # overall / aggregates: every control combination (or metric name) always occurs
                            if set(c.index) != set(pt.index) and layout != "s1c1":
                                V.append(viol("C18:%s:index" % name, "ci index %r != point index %r (%s)" % (list(c.index), list(pt.index), ctx)))
                    if is_default and not _same(c, res2[ri][2][k]):
                        V.append(viol("C18:%s:nondeterministic" % name, "two constructions with the same seed differ (%s)" % ctx))
                for i, j in itertools.permutations(range(len(qs)), 2):
                    if qs[i] <= qs[j] and not _leq(ci[i], ci[j]):
                        V.append(viol("C18:%s:order" % name, "quantile %r entry exceeds quantile %r entry (%s): %r vs %r" % (
                            qs[i], qs[j], ctx, np.asarray(ci[i], float).tolist(), np.asarray(ci[j], float).tolist())))
            # resample facts via the dict metrics
            if form == "dict" and isinstance(mf.overall_ci, list) and len(mf.overall_ci) == len(qs):
                for k, c in enumerate(mf.overall_ci):
                    cells = [c] if layout != "s1c1" else [c.loc[i] for i in c.index]
                    pts = [mf.overall] if layout != "s1c1" else [mf.overall.loc[i] for i in c.index]
                    tot_n = 0.0
                    for cell, ptc in zip(cells, pts):
                        if not math.isnan(cell["c"]) and cell["c"] != 3.0:
                            V.append(viol("C18:constant-metric:moves", "constant metric has quantile %r (%s)" % (cell["c"], ctx)))
                        if not math.isnan(cell["sub"]) and cell["sub"] != 1.0:
                            V.append(viol("C18:resample:foreign-rows", "a resample contains rows that are not data rows (%s)" % ctx))
                        tot_n += 0 if math.isnan(cell["n"]) else cell["n"]
                    if layout != "s1c1" and c["n"] != n:
                        V.append(viol("C18:resample:size", "overall count quantile %r = %r, expected n=%d (%s)" % (qs[k], c["n"], n, ctx)))
                if is_nb10 and n >= 3 and layout != "s1c1":
                    lo = mf.overall_ci[0]
                    if not lo["d"] < n:
                        V.append(viol("C18:resample:without-replacement", "low quantile of #distinct ids is %r = n: resamples never repeat a row (%s)" % (lo["d"], ctx)))
            if form == "callable" and qs == QLISTS[4] and layout != "s1c1" and n >= 2 and len(mf.overall_ci) == 2:
                lo, hi = mf.overall_ci
                mid = _build(assign, layout, form, cfg["n_boot"], [0.5], mk_seed()).overall_ci[0]
                if not (hi - lo > 0) or not (lo - 1e-12 <= mid <= hi + 1e-12):
                    V.append(viol("C18:resample:degenerate", "[0.001,0.999] interval of mean(id) is [%r,%r] median %r: resamples do not differ (%s)" % (lo, hi, mid, ctx)))
            if is_default:
                outcome.append(_digest(mf))
    out["outcome"] = outcome
    out["classes"] = sorted(out["classes"])
    return out


# ---- layer B: owned resampling ---------------------------------------------------------------
class _OwnSample:
    def __init__(self, script):
        self.script = list(script)
        self.calls = 0

    def __enter__(self):
        self.orig = pd.DataFrame.sample
        own = self

        def fake(df, *a, **k):
            own.calls += 1
            idx = own.script[(own.calls - 1) % len(own.script)]
            return df.iloc[list(idx)].reset_index(drop=True)
        pd.DataFrame.sample = fake
        return self

    def __exit__(self, *a):
        pd.DataFrame.sample = self.orig


def _ref_frame(assign, layout, idx):
    """Reference by_group / overall / aggregates of every DICT metric on the resample idx (plain loops)."""
    n = len(assign)
    kw, cols, ncontrol = _features(assign, layout)
    yp = [i % 2 for i in range(n)]
    rows = {}
    for pos in idx:
        rows.setdefault(tuple(col[pos] for col in cols), []).append(pos)

    def metrics_of(ids):
        if not ids:
            return None
        return {"n": float(len(ids)), "c": 3.0, "sr": sum(yp[i] for i in ids) / len(ids), "d": float(len(set(ids))),
                "sub": 1.0, "mid": sum(ids) / len(ids)}
    by_group = {k: metrics_of(v) for k, v in rows.items()}
    if ncontrol:
        overall = {}
        for key, ids in rows.items():
            overall.setdefault(key[:1], []).extend(ids)
        overall = {k: metrics_of(v) for k, v in overall.items()}
    else:
        overall = {(): metrics_of(list(idx))}
    return by_group, overall


def _run_b(case):
    assign, layout, nb = case["assign"], case["layout"], case["n_boot"]
    n = len(assign)
    out = {"evals": 0, "violations": [], "classes": set(), "states": [], "transitions": 0, "traces": 0, "nontrivial": True}
    V = out["violations"]
    out["classes"].add("layerB_nboot%d" % nb)
    if layout == "s1c1":
        out["classes"].add("control_feature")
    vectors = list(itertools.product(range(n), repeat=n))
    scripts = [(v,) for v in vectors] if nb == 1 else list(itertools.product(vectors, repeat=2))
    qs = [0.25, 0.5] if nb == 2 else [0.5, 0.9]
    kw, cols, ncontrol = _features(assign, layout)
    data_groups = set(tuple(col[i] for col in cols) for i in range(n))
    outcome = []
    for script in scripts:
        out["evals"] += 1
        out["transitions"] += 1
        out["states"].append(jhash([assign, layout, script]))
        with _OwnSample(script) as own:
            try:
                mf = _build(assign, layout, "dict", nb, qs, 0)
            except Exception as e:
                V.append(viol("C18:layerB:raises-%s" % type(e).__name__, "bootstrap raised %r for resample %r assign=%r layout=%s" % (e, script, assign, layout)))
                continue
        if own.calls != nb:
            out["classes"].add("layerB_inapplicable")
            continue
        out["traces"] += 1
        refs = [_ref_frame(assign, layout, idx) for idx in script]
        ctx = "assign=%r layout=%s resamples=%r" % (assign, layout, [list(s) for s in script])
        # by_group_ci
        present = set()
        for bg, _ in refs:
            present |= set(bg)
        if present != data_groups:
            out["classes"].add("group_absent_from_resample")
        for qi, ci in enumerate(mf.by_group_ci):
            idx = [as_tuple(t) for t in ci.index]
            if not present <= set(idx):
                V.append(viol("C18:by_group:index-lacks-resampled-group", "by_group_ci index %r lacks groups %r that occur in a resample (%s)" % (
                    idx, sorted(present - set(idx)), ctx)))
                continue
            for t in idx:
                for mname in DICT:
                    vals = [(bg.get(t) or {}).get(mname, float("nan")) if bg.get(t) else float("nan") for bg, _ in refs]
                    obs = float(ci.loc[t if len(t) > 1 else t[0], mname])
                    _cmp_q(V, "by_group", obs, vals, nb, "%s cell=%r metric=%s q=%r" % (ctx, t, mname, qs[qi]))
        for qi, ci in enumerate(mf.overall_ci):
            for mname in DICT:
                if ncontrol:
                    for t in ci.index:
                        vals = [(ov.get(as_tuple(t)) or {}).get(mname, float("nan")) if ov.get(as_tuple(t)) else float("nan") for _, ov in refs]
                        _cmp_q(V, "overall", float(ci.loc[t, mname]), vals, nb, "%s stratum=%r metric=%s" % (ctx, t, mname))
                else:
                    vals = [ov[()][mname] for _, ov in refs]
                    _cmp_q(V, "overall", float(ci[mname]), vals, nb, "%s metric=%s" % (ctx, mname))
        # aggregates (no control features: one aggregate per metric)
        if not ncontrol:
            aggs = []
            for ri, (bg, ov) in enumerate(refs):
                per = {}
                vals_present = [sorted(set(col[p] for p in script[ri])) for col in cols]
                prod = list(itertools.product(*vals_present))
                for mname in DICT:
                    gvals = [bg[t][mname] if t in bg else float("nan") for t in prod]
                    per[mname] = ref_aggregates(gvals, ov[()][mname])
                aggs.append(per)
            table = {"group_min": ("min", mf.group_min_ci()), "group_max": ("max", mf.group_max_ci()),
                     "difference_between_groups": ("diff_b", mf.difference_ci(method="between_groups")),
                     "difference_to_overall": ("diff_o", mf.difference_ci(method="to_overall")),
                     "ratio_between_groups": ("ratio_b", mf.ratio_ci(method="between_groups")),
                     "ratio_to_overall": ("ratio_o", mf.ratio_ci(method="to_overall"))}
            for name, (key, cis) in table.items():
                for qi, ci in enumerate(cis):
                    for mname in DICT:
                        vals = [a[mname][key] for a in aggs]
                        _cmp_q(V, name, float(ci[mname]), vals, nb, "%s metric=%s q=%r" % (ctx, mname, qs[qi]), nan_ok=True)
        outcome.append(_digest(mf))
    out["outcome"] = jhash(outcome)
    out["classes"] = sorted(out["classes"])
    return out


def _cmp_q(V, name, obs, vals, nb, ctx, nan_ok=False):
    good = [v for v in vals if not math.isnan(v)]
    if nb == 1:
        if not close(obs, vals[0], 1e-12):
            V.append(viol("C18:layerB:%s-value" % name, "%s_ci=%r but the metric on the single resample is %r (%s)" % (name, obs, vals[0], ctx),
                          vals[0], obs))
    else:
        if not good:
            if not math.isnan(obs):
                V.append(viol("C18:layerB:%s-value" % name, "%s_ci=%r but the value is undefined on every resample (%s)" % (name, obs, ctx)))
        elif math.isnan(obs):
            if not (nan_ok and len(good) < len(vals)):
                V.append(viol("C18:layerB:%s-value" % name, "%s_ci is NaN, resample values %r (%s)" % (name, vals, ctx)))
        elif not (min(good) - 1e-12 <= obs <= max(good) + 1e-12):
            V.append(viol("C18:layerB:%s-value" % name, "%s_ci=%r outside the range of the resample values %r (%s)" % (name, obs, vals, ctx),
                          vals, obs))


def describe(case):
    return case


LEVEL_TEXT = ("The bootstrap's only nondeterminism (which rows each resample draws) is owned by the explorer: with DataFrame.sample "
              "intercepted, every resample vector in {0..n-1}^n (and every ordered pair for n_boot=2) is supplied and every *_ci entry is "
              "compared with the metric recomputed on exactly those rows; with the real generator, the API relations of the statement "
              "(shape, type, index, monotonicity, reproducibility in-process and in a fresh interpreter, n rows per resample, with "
              "replacement, non-degenerate) are checked on every small dataset x layout x configuration at deviation distance 1.")
LEVEL_NOTE = "Layer B trusts the interception seam (self-disabling if sample() is not called n_boot times) and the loop-based reference; layer A facts about 'resamples differ' are fixed-seed facts."
TECHNIQUE = "explicit enumeration of all environment answers (bootstrap resample vectors) on the real code + bounded-exhaustive configuration enumeration"
