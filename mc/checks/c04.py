"""C04 - ThresholdOptimizer equalises the constrained metric exactly on the training data."""
from mc.checks import _to_common as T

PROPERTY = "C04"
LEVEL = "exploration"
CHUNK = 2
RULE = ("per group every multiset of (label, score-level) rows with both labels present (sizes 2..3, thorough 4; 3 score levels, "
        "thorough 4; plus a near-tie palette with two levels 2e-6 apart) x unordered tuples of 2..3 (thorough ..5) groups x constraints x admissible objectives x flip x grid sizes; "
        "scores injected through a prefit pass-through estimator; oracle: per-group expected rate under _pmf_predict on the "
        "training rows, recomputed by loops, equal across groups within 1e-9 and probabilities finite in [0,1]; non-trivial = "
        "always (every case has >= 2 groups with both labels); distinct = distinct group tuples")
ASSUMPTIONS = ["score values come from a 3(4)-level palette selected by VERIF_SEED; group sizes above the bound are not explored"]
CLASSES = ["score_ties", "all_scores_equal_in_group", "grid_size_1", "three_or_more_groups", "near_tie_scores", "explicit_predict_method"]
# classes whose occurrence depends on implementation internals (reported, warned about when absent, never a hard vacuity error)
SOFT_CLASSES = ["p_ignore_positive", "flip_used", "randomised_between_thresholds"]

cases = T.cases
bounds = T.bounds
describe = T.describe


def run_case(case):
    return T.run_case(case, "C04")


LEVEL_TEXT = ("All small multisets of (group,label,score-level) rows and all 27 constraint/objective pairs x flip x grid sizes are fitted "
              "with the real ThresholdOptimizer and the equalised rate is recomputed from the reported probabilities on the training "
              "rows. Tie patterns, vertical hull segments and grid points on hull vertices are exactly the cases a small-scope "
              "exhaustive enumeration reaches and three fixed examples do not.")
LEVEL_NOTE = "Trusts the 10-line per-group rate computation; the base estimator is a pass-through stub so scores are exactly the palette values."
TECHNIQUE = "bounded-exhaustive enumeration of datasets x configurations on the real code with a recomputed-invariant oracle"
