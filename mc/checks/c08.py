"""C08 - ExponentiatedGradient meets the saddle-point guarantees certified by best_gap_."""
import itertools

import numpy as np
import pandas as pd

from mc.engine import viol
from mc.ref.moments import PARITY, err_rate, make_bound, ref_gamma

PROPERTY = "C08"
LEVEL = "exploration"
CHUNK = 1
RULE = ("all multisets of rows (x, group, label) with one discrete feature of k values, 2..3 groups, both labels present, n up to the "
        "bound x 5 parity moments x bounds {difference 0, 0.1; ratio 0.8} x configurations at deviation distance <=1 from "
        "(eps=0.05, max_iter=8, LP step on, eta0=2, nu=None): eps=0.25, max_iter in {1,3,25}, LP off, (thorough) eta0=0.5, nu=0.02; "
        "learner = exact weighted 0/1 minimiser over the full class {x-values -> {0,1}}; reference: gamma/err of every hypothesis "
        "by loops, OPT by a small LP over the enumerated class; oracle: weights_ a probability vector over predictors_, "
        "err(Q) <= OPT+2g, max_j(gamma_j(Q)-bound_j) <= (1+2g)/B, g >= true duality gap of Q against a recorded multiplier vector "
        "(brute force over all hypotheses and the vertices of the lambda simplex), early stop => best_gap_ < nu. "
        "non-trivial = some constraint is active at the unconstrained optimum; distinct = distinct (dataset)")
ASSUMPTIONS = ["scipy HiGHS is used only as reference optimum for each enumerated instance (tolerance 1e-7)",
               "hypothesis class = all 2^k functions of the discrete feature, so the exact learner really is exact and constants are in the class"]
CLASSES = ["label_equals_group", "lp_step_off", "max_iter_1", "ratio_bound", "three_groups"]
# classes whose occurrence depends on implementation internals (reported, warned about when absent, never a hard vacuity error)
SOFT_CLASSES = ["support_not_a_sorted_prefix", "early_stop", "mixture_of_several", "constraint_active"]


def bounds(tier, seed):
    return {"n": "3 (quick: all moments x bounds at the base configuration, every deviation for DemographicParity/difference 0.1) / 3..5 (thorough: full product, 6 for k=2 G=2)", "k": "2 (thorough: 3 for n<=4)", "groups": "2..3",
            "bounds": BSPECS, "configs": "deviation distance <= 1 from the base configuration"}


BSPECS = [("diff", 0.0, None), ("diff", 0.1, None), ("ratio", 0.8, 0.0)]


def _datasets(k, G, ns):
    rt = [(x, g, l) for x in range(k) for g in "abc"[:G] for l in (0, 1)]
    for n in ns:
        for ms in itertools.combinations_with_replacement(range(len(rt)), n):
            rows = [rt[i] for i in ms]
            if len({r[1] for r in rows}) < 2 or len({r[2] for r in rows}) < 2:
                continue
            yield [list(r) for r in rows]


def _unsorted_cases(tier, seed):
    """EG runs (k=3 feature values, 3 groups, n=5, LP step off) whose best iterate is an EG average with an out-of-order support."""
    import json
    import os
    p = os.path.join(os.path.dirname(os.path.abspath(__file__)), "c10_unsorted_cases.json")
    for spec in json.load(open(p))[: (12 if tier == "quick" else 24)]:
        yield {"rows": spec["rows"], "tier": tier, "seed": seed, "set": "unsorted", "spec": [spec["moment"], spec["bound"], spec["eps"]]}


def _degenerate_cases(tier, seed):
    """labels perfectly correlated with the group (and with the only feature): the relabelled best-response problem collapses to a
    constant, so the oracle's constant-classifier shortcut is taken repeatedly, with both constants, within one fit."""
    sizes = [(1, 2), (2, 1), (3, 7), (2, 5), (4, 4)] if tier == "quick" else [(p, q) for p in range(1, 8) for q in range(1, 8)]
    for na, nb in sizes:
        rows = [[0, "a", 1]] * na + [[1, "b", 0]] * nb
        yield {"rows": rows, "tier": tier, "seed": seed, "set": "degenerate"}


def cases(tier, seed):
    yield from _unsorted_cases(tier, seed)
    yield from _degenerate_cases(tier, seed)
    if tier == "quick":
        for rows in _datasets(2, 2, (3,)):
            yield {"rows": rows, "tier": tier, "seed": seed, "set": "full"}
        for rows in _datasets(2, 3, (3,)):
            if len({r[1] for r in rows}) == 3:
                yield {"rows": rows, "tier": tier, "seed": seed, "set": "lite"}
    else:
        for rows in _datasets(2, 2, (3, 4, 5)):
            yield {"rows": rows, "tier": tier, "seed": seed, "set": "full"}
        for rows in _datasets(2, 3, (3, 4)):
            if len({r[1] for r in rows}) == 3:
                yield {"rows": rows, "tier": tier, "seed": seed, "set": "full"}
        for rows in _datasets(3, 2, (3, 4)):
            if len({r[0] for r in rows}) == 3:
                yield {"rows": rows, "tier": tier, "seed": seed, "set": "lite"}
        for rows in _datasets(2, 2, (6,)):
            yield {"rows": rows, "tier": tier, "seed": seed, "set": "lite"}


def _configs(tier, kind):
    """kind: 'base' (base configuration only), 'lite' (+LP off), 'full' (every deviation at distance 1)."""
    base = dict(eps=0.05, max_iter=8, run_linprog_step=True, eta0=2.0, nu=None)
    out = [dict(base)]
    if kind in ("lite", "full"):
        out.append(dict(base, run_linprog_step=False))
    if kind == "full":
        out += [dict(base, eps=0.25), dict(base, max_iter=1), dict(base, max_iter=3), dict(base, max_iter=25)]
        if tier != "quick":
            out += [dict(base, eta0=0.5), dict(base, nu=0.02), dict(base, run_linprog_step=False, max_iter=25)]
    return out


def describe(case):
    return {"rows(x,group,label)": case["rows"], "configs": case["set"]}


def run_case(case):
    import fairlearn.reductions as red
    from scipy.optimize import linprog

    from mc.stubs import ExactLearner

    rows = case["rows"]
    tier = case["tier"]
    n = len(rows)
    X = np.array([[r[0]] for r in rows], float)
    a = [r[1] for r in rows]
    y = [r[2] for r in rows]
    xs = sorted(set(r[0] for r in rows))
    H = [dict(zip(xs, bits)) for bits in itertools.product([0, 1], repeat=len(xs))]
    HP = [[float(h[r[0]]) for r in rows] for h in H]
    errs = np.array([err_rate(y, hp) for hp in HP])
    out = {"evals": 0, "violations": [], "classes": set(), "nontrivial": False}
    V = out["violations"]
    if len(set(a)) == 3:
        out["classes"].add("three_groups")
    outcome = []
    plan = [(name, spec) for name in PARITY for spec in BSPECS]
    if case["set"] == "unsorted":
        plan = [(case["spec"][0], ("diff", case["spec"][1], None))]
    if case["set"] == "degenerate":
        out["classes"].add("label_equals_group")
        plan = [(nm, sp) for nm in ("DemographicParity", "ErrorRateParity", "EqualizedOdds") for sp in (("ratio", 0.8, 0.05), ("ratio", 0.8, 0.0), ("diff", 0.1, None))]
    for name, spec in plan:
        if True:
            _, ratio, slack = make_bound(getattr(red, name), spec)
            keys = sorted(ref_gamma(name, ratio, y, a, None, HP[0]))
            Gm = np.array([[ref_gamma(name, ratio, y, a, None, hp)[k] for k in keys] for hp in HP]).T  # k x |H|
            lp = linprog(errs, A_ub=Gm, b_ub=np.full(Gm.shape[0], slack), A_eq=np.ones((1, len(H))), b_eq=[1], bounds=(0, None), method="highs")
            if lp.status != 0:
                continue  # infeasible cannot happen (constants are in the class); skip defensively
            opt = lp.fun
            if (Gm[:, int(np.argmin(errs))] > slack + 1e-12).any():
                out["classes"].add("constraint_active")
                out["nontrivial"] = True
            if spec[0] == "ratio":
                out["classes"].add("ratio_bound")
            if case["set"] == "unsorted":
                cfgs = [dict(eps=case["spec"][2], max_iter=12, run_linprog_step=False, eta0=2.0, nu=None)]
            elif case["set"] == "degenerate":
                cfgs = [dict(eps=0.05, max_iter=50, run_linprog_step=True, eta0=2.0, nu=None), dict(eps=0.05, max_iter=20, run_linprog_step=False, eta0=2.0, nu=None)]
            elif tier == "quick":  # quick: all deviations only for DemographicParity / difference 0.1, base configuration elsewhere
                cfgs = _configs(tier, case["set"] if (name == "DemographicParity" and spec == BSPECS[1]) else "base")
            else:
                cfgs = _configs(tier, case["set"])
            for cfg in cfgs:
                out["evals"] += 1
                cons, _, _ = make_bound(getattr(red, name), spec)
                ctx = "%s%r cfg=%r rows=%r" % (name, spec, cfg, rows)
                snip = ("import numpy as np, fairlearn.reductions as r; from mc.stubs import ExactLearner; rows=%r; "
                        "X=np.array([[q[0]] for q in rows],float); eg=r.ExponentiatedGradient(ExactLearner(), r.%s(%s), **%r); "
                        "eg.fit(X,[q[2] for q in rows],sensitive_features=[q[1] for q in rows]); print(eg.best_gap_, eg.weights_)" % (
                            rows, name, "difference_bound=%r" % spec[1] if spec[0] == "diff" else "ratio_bound=%r" % spec[1], cfg))
                eg = red.ExponentiatedGradient(ExactLearner(), cons, **cfg)
                try:
                    eg.fit(X, np.array(y), sensitive_features=np.array(a))
                except Exception as e:
                    V.append(viol("C08:%s:fit-raises-%s" % (name, type(e).__name__), "fit raised %r (%s)" % (e, ctx), None, repr(e), snip))
                    continue
                if not cfg["run_linprog_step"]:
                    out["classes"].add("lp_step_off")
                if cfg["max_iter"] == 1:
                    out["classes"].add("max_iter_1")
                w = eg.weights_
                if abs(float(w.sum()) - 1) > 1e-9 or (w < -1e-12).any() or set(w.index) != set(eg.predictors_.index):
                    V.append(viol("C08:%s:weights" % name, "weights_ %r not a probability vector over predictors_ (%s)" % (w.to_dict(), ctx), None, None, snip))
                    continue
                if (w > 1e-9).sum() > 1:
                    out["classes"].add("mixture_of_several")
                sup = [i for i in w.index if w[i] > 0]
                if sup != sorted(sup) or sup != list(range(len(sup))):
                    out["classes"].add("support_not_a_sorted_prefix")
                preds = {i: [float(v) for v in np.asarray(eg.predictors_[i].predict(X)).ravel()] for i in w.index}
                errQ = sum(float(w[i]) * err_rate(y, preds[i]) for i in w.index)
                gQ = sum(float(w[i]) * np.array([ref_gamma(name, ratio, y, a, None, preds[i])[k] for k in keys]) for i in w.index)
                g = float(eg.best_gap_)
                B = 1 / cfg["eps"]
                if errQ > opt + 2 * g + 1e-7:
                    V.append(viol("C08:%s:error-bound" % name, "err(Q)=%r > OPT %r + 2*best_gap_ %r (%s)" % (errQ, opt, g, ctx), opt + 2 * g, errQ, snip))
                if (gQ - slack).max() > (1 + 2 * g) / B + 1e-7:
                    V.append(viol("C08:%s:constraint-bound" % name, "max violation %r > (1+2g)/B = %r, g=%r (%s)" % (float((gQ - slack).max()), (1 + 2 * g) / B, g, ctx),
                                  (1 + 2 * g) / B, float((gQ - slack).max()), snip))
                nu = float(eg.nu)
                if eg.last_iter_ < cfg["max_iter"] - 1:
                    out["classes"].add("early_stop")
                    if not g < nu:
                        V.append(viol("C08:%s:early-stop-gap" % name, "stopped at iteration %d < max_iter-1 with best_gap_ %r >= nu %r (%s)" % (eg.last_iter_, g, nu, ctx), None, None, snip))
                # g >= true duality gap of Q against a recorded multiplier vector
                t = int(eg.best_iter_)
                cands = []
                try:
                    idx = eg.lambda_vecs_EG_.index
                    order = [tuple(k_) for k_ in idx]
                    cands.append(eg.lambda_vecs_EG_.iloc[:, : t + 1].mean(axis=1))
                    if t in getattr(eg, "lambda_vecs_LP_", pd.DataFrame()).columns:
                        cands.append(eg.lambda_vecs_LP_[t])
                except Exception:
                    cands = []
                if cands and set(order) == set(keys):
                    perm = [keys.index(k_) for k_ in order]
                    Gm_o = Gm[perm, :]
                    gQ_o = gQ[perm]
                    gaps = []
                    for lam in cands:
                        for lv in (np.asarray(lam, float), np.asarray(eg.constraints.project_lambda(lam.copy()).reindex(idx), float)):
                            if not np.isfinite(lv).all():
                                continue
                            L = errQ + float(lv @ (gQ_o - slack))
                            L_low = float((errs + lv @ (Gm_o - slack)).min())
                            L_high = errQ + B * max(0.0, float((gQ_o - slack).max()))
                            gaps.append(max(L - L_low, L_high - L))
                    if gaps and g < min(gaps) - 1e-7:
                        V.append(viol("C08:%s:gap-underestimated" % name, "best_gap_=%r < true duality gap %r of the returned Q against every recorded multiplier vector (%s)" % (
                            g, min(gaps), ctx), min(gaps), g, snip))
                if cfg == _configs(tier, "base")[0]:
                    outcome.append([name, spec[0], round(errQ, 9), round(g, 9)])
    out["outcome"] = outcome
    out["classes"] = sorted(out["classes"])
    return out


LEVEL_TEXT = ("Every small dataset x parity moment x bound x configuration at deviation distance 1 is fitted with the real "
              "ExponentiatedGradient and an exact learner over an enumerable hypothesis class; the certified guarantees are recomputed "
              "from first principles (all hypotheses, LP optimum, brute-force duality gap). The suite only checks fixed expected "
              "numbers on two datasets; no test compares against an independent optimum.")
LEVEL_NOTE = "Trusts the reference gamma/error loops and scipy's HiGHS for the per-instance reference optimum (1e-7 tolerance)."
TECHNIQUE = "bounded-exhaustive enumeration of datasets x configurations on the real code against a brute-force/LP reference optimum"
