"""C20 - inconsistent or unsupported inputs are rejected, never silently processed (fault_enumeration)."""
import itertools

import numpy as np
import pandas as pd

from mc.engine import viol

PROPERTY = "C20"
LEVEL = "fault_enumeration"
CHUNK = 32
RULE = ("fault alphabet: (a) length of exactly one argument off by k in {-2,-1,+1,+2} or reduced to 1; (b) one label replaced, at EVERY "
        "position, by a value outside {0,1} (2, -1, 0.5, NaN, '1'); (c) sensitive feature missing; (d) one ThresholdOptimizer group "
        "made single-label, for every group and label; (e) every unsupported (constraint, objective) pair of the cross product of "
        "both vocabularies plus misspellings; (f) control features for ThresholdOptimizer; (g) both parity bounds, ratio bound out "
        "of range, bad ErrorRate costs, GridSearch constraint_weight / selection_rule / non-Moment constraints; (h) MetricFrame "
        "duplicate and non-string feature names; (i) predict/transform before fit. Enumerated over entry point x argument position "
        "x container {list, ndarray, Series(shuffled index), DataFrame} x fault x position on two valid base datasets (n=4, 6); one "
        "fault per case (thorough: also pairs of length faults in different arguments). Oracle: the call raises; each base call is "
        "first checked to be ACCEPTED. non-trivial = always; distinct = distinct (entry, fault) descriptors")
ASSUMPTIONS = ["not claimed as faults: scalar sample parameters (broadcast), negative difference_bound, y_true/y_pred length mismatch in selection_rate called directly",
               "any Exception class is accepted as a rejection; NotFittedError is required for predict-before-fit"]
CLASSES = ["length_fault", "label_fault", "missing_sensitive", "degenerate_group", "unsupported_pair", "control_features_to", "bad_bounds",
           "bad_feature_names", "not_fitted", "series_container", "dataframe_container"]

CONT = ["list", "ndarray", "series", "dataframe"]
BASE = [
    {"X": [[0.0], [1.0], [0.0], [1.0]], "y": [0, 1, 1, 0], "p": [1, 1, 0, 0], "a": ["a", "a", "b", "b"], "c": ["u", "v", "u", "v"], "w": [1.0, 2.0, 3.0, 4.0]},
    {"X": [[0.0], [1.0], [2.0], [0.0], [1.0], [2.0]], "y": [0, 1, 1, 1, 0, 0], "p": [1, 0, 1, 0, 1, 0], "a": ["a", "b", "a", "b", "a", "b"],
     "c": ["u", "u", "v", "v", "u", "v"], "w": [2.0, 1.0, 1.0, 3.0, 2.0, 1.0]},
]
BAD_LABELS = [2, -1, 0.5, float("nan"), "1"]


def wrap(v, cont, name="v"):
    n = len(v)
    if cont == "list":
        return list(v)
    if cont == "ndarray":
        return np.asarray(v)
    idx = [(5 * i + 2) % n if n in (1, 2, 3, 4, 6, 7, 8) and np.gcd(5, n) == 1 else n - 1 - i for i in range(n)]
    if cont == "series":
        return pd.Series(list(v), index=idx, name=name)
    return pd.DataFrame({name: list(v)}, index=idx)


def wrapX(v, cont):
    X = np.asarray(v, float)
    return X if cont in ("list", "ndarray") else pd.DataFrame(X, columns=["f%d" % j for j in range(X.shape[1])])


def resize(v, k):
    """length fault: k in {-2,-1,+1,+2} changes the length by k; k == 'one' keeps a single element."""
    v = list(v)
    if k == "one":
        return v[:1]
    if k < 0:
        return v[:k]
    return v + v[:k]


# ---- entry points: name -> (argument roles, runner(args dict, container dict)) ----------------------
def _mk_entries():
    import fairlearn.metrics as fm
    import fairlearn.reductions as red
    from fairlearn.postprocessing import ThresholdOptimizer
    from fairlearn.preprocessing import CorrelationRemover

    from mc.stubs import ExactLearner, prefit_score

    def dm_call(name):
        d = fm.make_derived_metric(metric=fm.selection_rate, transform="difference")

        def run(a):
            return d(a["y"], a["p"], sensitive_features=a["a"], sample_weight=a["w"])
        return run

    E = {}
    E["MetricFrame"] = (["y", "p", "a", "c", "w"], lambda a: fm.MetricFrame(metrics={"sr": fm.selection_rate}, y_true=a["y"], y_pred=a["p"], sensitive_features=a["a"],
                                                                                  control_features=a["c"], sample_params={"sr": {"sample_weight": a["w"]}}))
    for fn in ("demographic_parity_difference", "equalized_odds_ratio", "equal_opportunity_difference"):
        E[fn] = (["y", "p", "a", "w"], (lambda f: lambda a: getattr(fm, f)(a["y"], a["p"], sensitive_features=a["a"], sample_weight=a["w"]))(fn))
    E["derived:selection_rate_difference"] = (["y", "p", "a", "w"], dm_call("d"))
    for mname in ("DemographicParity", "TruePositiveRateParity", "FalsePositiveRateParity", "EqualizedOdds", "ErrorRateParity"):
        E["moment:" + mname] = (["X", "y", "a", "c"], (lambda m: lambda a: getattr(red, m)().load_data(a["X"], a["y"], sensitive_features=a["a"], control_features=a["c"]))(mname))
    E["moment:BoundedGroupLoss"] = (["X", "y", "a"], lambda a: red.BoundedGroupLoss(red.ZeroOneLoss(), upper_bound=0.1).load_data(a["X"], a["y"], sensitive_features=a["a"]))
    E["moment:ErrorRate"] = (["X", "y", "a"], lambda a: red.ErrorRate().load_data(a["X"], a["y"], sensitive_features=a["a"]))
    E["EG.fit"] = (["X", "y", "a"], lambda a: red.ExponentiatedGradient(ExactLearner(), red.DemographicParity(), max_iter=3).fit(a["X"], a["y"], sensitive_features=a["a"]))
    E["GridSearch.fit"] = (["X", "y", "a"], lambda a: red.GridSearch(ExactLearner(), red.DemographicParity(), grid_size=3).fit(a["X"], a["y"], sensitive_features=a["a"]))
    E["TO.fit"] = (["X", "y", "a"], lambda a: ThresholdOptimizer(estimator=prefit_score(), prefit=True, predict_method="predict").fit(a["X"], a["y"], sensitive_features=a["a"]))

    def to_predict(a):
        t = ThresholdOptimizer(estimator=prefit_score(), prefit=True, predict_method="predict").fit(np.asarray(a["_X0"], float), a["_y0"], sensitive_features=a["_a0"])
        return t.predict(a["X"], sensitive_features=a["a"], random_state=0)
    E["TO.predict"] = (["X", "a"], to_predict)
    return E


_ENT = None


def entries():
    global _ENT
    if _ENT is None:
        _ENT = _mk_entries()
    return _ENT


ENTRY_NAMES = ["MetricFrame", "demographic_parity_difference", "equalized_odds_ratio", "equal_opportunity_difference", "derived:selection_rate_difference",
               "moment:DemographicParity", "moment:TruePositiveRateParity", "moment:FalsePositiveRateParity", "moment:EqualizedOdds", "moment:ErrorRateParity",
               "moment:BoundedGroupLoss", "moment:ErrorRate", "EG.fit", "GridSearch.fit", "TO.fit", "TO.predict"]
ARGS = {"MetricFrame": ["y", "p", "a", "c", "w"], "TO.predict": ["X", "a"]}
LABEL_ENTRIES = ["moment:DemographicParity", "moment:TruePositiveRateParity", "moment:FalsePositiveRateParity", "moment:EqualizedOdds", "moment:ErrorRateParity",
                 "moment:ErrorRate", "EG.fit", "GridSearch.fit", "TO.fit"]
SF_ENTRIES = LABEL_ENTRIES + ["moment:BoundedGroupLoss", "MetricFrame"]

TO_CONSTRAINTS = ["demographic_parity", "selection_rate_parity", "false_positive_rate_parity", "false_negative_rate_parity", "true_positive_rate_parity",
                  "true_negative_rate_parity", "equalized_odds"]
TO_OBJECTIVES = ["accuracy_score", "balanced_accuracy_score", "selection_rate", "true_positive_rate", "true_negative_rate", "false_positive_rate", "false_negative_rate"]


def _args_of(e):
    if e in ARGS:
        return ARGS[e]
    if e.startswith("moment:") or e in ("EG.fit", "GridSearch.fit", "TO.fit"):
        return ["X", "y", "a", "c"] if e.startswith("moment:") and e not in ("moment:BoundedGroupLoss", "moment:ErrorRate") else ["X", "y", "a"]
    return ["y", "p", "a", "w"]


def bounds(tier, seed):
    return {"entry_points": ENTRY_NAMES, "containers": CONT, "length_faults": [-2, -1, 1, 2, "one"], "bad_labels": [str(v) for v in BAD_LABELS], "base_datasets": [4, 6]}


def cases(tier, seed):
    for e in ENTRY_NAMES:
        for di in range(2):
            yield {"f": "accept", "e": e, "d": di}
            for arg in _args_of(e):
                for cont in CONT:
                    for k in (-2, -1, 1, 2, "one"):
                        yield {"f": "len", "e": e, "d": di, "arg": arg, "cont": cont, "k": k}
            if tier != "quick" and e in ("MetricFrame", "moment:DemographicParity", "moment:EqualizedOdds", "moment:BoundedGroupLoss"):
                for a1, a2 in itertools.combinations(_args_of(e), 2):
                    for k1, k2 in itertools.product((-1, 1), repeat=2):
                        if k1 != k2:  # equal shifts in two arguments can restore consistency only if ALL arguments shift; two are never all
                            for cont in CONT:
                                yield {"f": "len2", "e": e, "d": di, "arg": a1, "arg2": a2, "cont": cont, "k": k1, "k2": k2}
    for e in LABEL_ENTRIES:
        for di in range(2):
            n = len(BASE[di]["y"])
            for pos in range(n):
                for bi in range(len(BAD_LABELS)):
                    for cont in CONT:
                        yield {"f": "label", "e": e, "d": di, "pos": pos, "bad": bi, "cont": cont}
    for e in SF_ENTRIES:
        for di in range(2):
            yield {"f": "nosf", "e": e, "d": di}
    for di in range(2):
        for g in ("a", "b"):
            for lab in (0, 1):
                for cont in CONT:
                    for cons in ("demographic_parity", "equalized_odds", "true_positive_rate_parity"):
                        yield {"f": "degenerate", "d": di, "g": g, "lab": lab, "cont": cont, "cons": cons}
    for c in TO_CONSTRAINTS + ["demographic_parit", "equalised_odds", "", None]:
        for o in TO_OBJECTIVES + ["accuracy", "roc_auc_score", None]:
            yield {"f": "pair", "c": c, "o": o}
    for di in range(2):
        for cont in CONT:
            yield {"f": "to_control", "d": di, "cont": cont}
    for i in range(len(_bound_faults())):
        yield {"f": "bounds", "i": i}
    for i in range(len(_name_faults())):
        yield {"f": "names", "i": i}
    for i in range(8):
        yield {"f": "notfitted", "i": i}


def describe(case):
    d = dict(case)
    if d.get("f") == "label":
        d["bad"] = str(BAD_LABELS[d["bad"]])
    return d


def _base_args(e, di, conts=None):
    b = BASE[di]
    conts = conts or {}
    a = {}
    for arg in _args_of(e):
        v = b[arg]
        a[arg] = wrapX(v, conts.get(arg, "ndarray")) if arg == "X" else wrap(v, conts.get(arg, "list"), arg)
    if e == "TO.predict":
        a["_X0"], a["_y0"], a["_a0"] = b["X"], b["y"], b["a"]
    return a


def _expect_raise(V, sig, what, fn, out):
    out["evals"] += 1
    try:
        r = fn()
    except Exception as ex:
        out["outcome"] = [sig.split(":")[1], type(ex).__name__, str(ex)[:60]]
        return True
    V.append(viol(sig, "%s was accepted (returned %s) instead of raising" % (what, type(r).__name__), "an exception", "returned normally"))
    return False


def _bound_faults():
    import fairlearn.reductions as red

    from mc.stubs import ExactLearner
    F = []
    for M in ("DemographicParity", "TruePositiveRateParity", "FalsePositiveRateParity", "EqualizedOdds", "ErrorRateParity"):
        F.append(("%s(difference_bound=0.1, ratio_bound=0.9)" % M, (lambda m: lambda: getattr(red, m)(difference_bound=0.1, ratio_bound=0.9))(M)))
        for r in (0, -0.1, 1.0001, 2):
            F.append(("%s(ratio_bound=%r)" % (M, r), (lambda m, rr: lambda: getattr(red, m)(ratio_bound=rr))(M, r)))
    for costs in ({"fp": -1.0, "fn": 1.0}, {"fp": 0.0, "fn": 0.0}, {"fp": 1.0}, {"fp": 1.0, "fn": 1.0, "tp": 0.0}, {"fp": 1.0, "fn": -0.5}, [1.0, 1.0]):
        F.append(("ErrorRate(costs=%r)" % (costs,), (lambda c: lambda: red.ErrorRate(costs=c))(costs)))
    for cw in (-0.1, 1.1):
        F.append(("GridSearch(constraint_weight=%r)" % cw, (lambda c: lambda: red.GridSearch(ExactLearner(), red.DemographicParity(), constraint_weight=c).fit(
            np.array(BASE[0]["X"]), BASE[0]["y"], sensitive_features=BASE[0]["a"]))(cw)))
    F.append(("GridSearch(selection_rule='best')", lambda: red.GridSearch(ExactLearner(), red.DemographicParity(), selection_rule="best").fit(
        np.array(BASE[0]["X"]), BASE[0]["y"], sensitive_features=BASE[0]["a"])))
    for bad in ("demographic_parity", None, 3):
        F.append(("GridSearch(constraints=%r)" % (bad,), (lambda b: lambda: red.GridSearch(ExactLearner(), b).fit(np.array(BASE[0]["X"]), BASE[0]["y"], sensitive_features=BASE[0]["a"]))(bad)))
    return F


def _name_faults():
    import fairlearn.metrics as fm
    b = BASE[0]

    def mf(sf, cf=None):
        return lambda: fm.MetricFrame(metrics=fm.selection_rate, y_true=b["y"], y_pred=b["p"], sensitive_features=sf, control_features=cf)
    F = [("duplicate names within a sensitive DataFrame", mf(pd.DataFrame([["a", "x"], ["a", "y"], ["b", "x"], ["b", "y"]], columns=["s", "s"]))),
         ("same name for a sensitive and a control Series", mf(pd.Series(b["a"], name="f"), pd.Series(b["c"], name="f"))),
         ("same key in sensitive and control dict", mf({"f": b["a"]}, {"f": b["c"]})),
         ("generated name collision sensitive_feature_0", mf(b["a"], pd.Series(b["c"], name="sensitive_feature_0"))),
         ("generated name collision control_feature_0", mf(pd.Series(b["a"], name="control_feature_0"), b["c"])),
         ("integer column name in a sensitive DataFrame", mf(pd.DataFrame({0: b["a"]}))),
         ("integer Series name", mf(pd.Series(b["a"], name=3))),
         ("tuple Series name", mf(pd.Series(b["a"], name=("x", "y")))),
         ("integer key in a sensitive dict", mf({1: b["a"]})),
         ("None column name in a control DataFrame", mf(b["a"], pd.DataFrame({None: b["c"]}))),
         ("integer column name in a control DataFrame", mf(b["a"], pd.DataFrame({7: b["c"]}))),
         ("duplicate names in a 2-column control DataFrame", mf(b["a"], pd.DataFrame([["u", "p"], ["v", "p"], ["u", "q"], ["v", "q"]], columns=["c", "c"])))]
    return F


def run_case(case):
    from sklearn.exceptions import NotFittedError

    out = {"evals": 0, "violations": [], "classes": set(), "nontrivial": True}
    V = out["violations"]
    f = case["f"]
    E = entries()
    if case.get("cont") == "series":
        out["classes"].add("series_container")
    if case.get("cont") == "dataframe":
        out["classes"].add("dataframe_container")
    if f == "accept":
        out["evals"] += 1
        for conts in ({}, {a: "series" for a in _args_of(case["e"]) if a != "X"}, {a: "dataframe" for a in _args_of(case["e"])}):
            try:
                E[case["e"]][1](_base_args(case["e"], case["d"], conts))
            except Exception as ex:
                V.append(viol("C20:base-not-accepted:%s" % case["e"], "the valid base dataset %d is rejected by %s with containers %r: %r" % (case["d"], case["e"], conts or "lists", ex)))
    elif f in ("len", "len2"):
        out["classes"].add("length_fault")
        e = case["e"]
        a = _base_args(e, case["d"])
        b = BASE[case["d"]]
        for arg, k in ((case["arg"], case["k"]),) + (((case["arg2"], case["k2"]),) if f == "len2" else ()):
            v = resize(b[arg], k)
            a[arg] = wrapX(v, case["cont"]) if arg == "X" else wrap(v, case["cont"], arg)
        what = "%s with %s of length %d (others %d) as %s" % (e, case["arg"], len(resize(b[case["arg"]], case["k"])), len(b["y"]), case["cont"])
        _expect_raise(V, "C20:length:%s:%s" % (e, case["arg"]), what, lambda: E[e][1](a), out)
    elif f == "label":
        out["classes"].add("label_fault")
        e = case["e"]
        b = BASE[case["d"]]
        y = list(b["y"])
        y[case["pos"]] = BAD_LABELS[case["bad"]]
        a = _base_args(e, case["d"])
        a["y"] = wrap(y, case["cont"], "y")
        _expect_raise(V, "C20:label:%s" % e, "%s with labels %r as %s" % (e, y, case["cont"]), lambda: E[e][1](a), out)
    elif f == "nosf":
        out["classes"].add("missing_sensitive")
        e = case["e"]
        a = _base_args(e, case["d"])
        a["a"] = None
        _expect_raise(V, "C20:missing-sensitive:%s" % e, "%s with sensitive_features=None" % e, lambda: E[e][1](a), out)
    elif f == "degenerate":
        from fairlearn.postprocessing import ThresholdOptimizer

        from mc.stubs import prefit_score
        out["classes"].add("degenerate_group")
        b = BASE[case["d"]]
        y = [case["lab"] if g == case["g"] else yy for yy, g in zip(b["y"], b["a"])]
        X = np.array([[0.1 * i] for i in range(len(y))])
        _expect_raise(V, "C20:degenerate-group:%s" % case["cons"], "ThresholdOptimizer(%s).fit with group %r having only label %d (y=%r, groups=%r, %s)" % (
            case["cons"], case["g"], case["lab"], y, b["a"], case["cont"]),
            lambda: ThresholdOptimizer(estimator=prefit_score(), constraints=case["cons"], prefit=True, predict_method="predict").fit(
                X, wrap(y, case["cont"], "y"), sensitive_features=wrap(b["a"], case["cont"], "a")), out)
    elif f == "pair":
        from fairlearn.postprocessing import ThresholdOptimizer

        from mc.stubs import prefit_score
        c, o = case["c"], case["o"]
        simple = c in TO_CONSTRAINTS[:-1]
        ok = (simple and o in ("accuracy_score", "balanced_accuracy_score", "selection_rate", "true_positive_rate", "true_negative_rate")) or \
             (c == "equalized_odds" and o in ("accuracy_score", "balanced_accuracy_score"))
        b = BASE[1]
        run = lambda: ThresholdOptimizer(estimator=prefit_score(), constraints=c, objective=o, prefit=True, predict_method="predict").fit(  # noqa: E731
            np.array([[0.1 * i] for i in range(6)]), b["y"], sensitive_features=b["a"])
        if ok:
            out["evals"] += 1
            try:
                run()
            except Exception as ex:
                V.append(viol("C20:supported-pair-rejected", "documented pair (%r, %r) is rejected: %r" % (c, o, ex)))
        else:
            out["classes"].add("unsupported_pair")
            _expect_raise(V, "C20:unsupported-pair", "ThresholdOptimizer(constraints=%r, objective=%r).fit" % (c, o), run, out)
    elif f == "to_control":
        from fairlearn.postprocessing import ThresholdOptimizer

        from mc.stubs import prefit_score
        out["classes"].add("control_features_to")
        b = BASE[case["d"]]
        _expect_raise(V, "C20:control-features-thresholder", "ThresholdOptimizer.fit with control_features as %s" % case["cont"],
                      lambda: ThresholdOptimizer(estimator=prefit_score(), prefit=True, predict_method="predict").fit(
                          np.array([[0.1 * i] for i in range(len(b["y"]))]), b["y"], sensitive_features=b["a"], control_features=wrap(b["c"], case["cont"], "c")), out)
    elif f == "bounds":
        out["classes"].add("bad_bounds")
        what, fn = _bound_faults()[case["i"]]
        _expect_raise(V, "C20:bad-parameter:%s" % what.split("(")[0], what, fn, out)
    elif f == "names":
        out["classes"].add("bad_feature_names")
        what, fn = _name_faults()[case["i"]]
        _expect_raise(V, "C20:feature-names", "MetricFrame with %s" % what, fn, out)
    elif f == "notfitted":
        import fairlearn.reductions as red
        from fairlearn.postprocessing import ThresholdOptimizer
        from fairlearn.preprocessing import CorrelationRemover

        from mc.stubs import ExactLearner
        out["classes"].add("not_fitted")
        X = np.array(BASE[0]["X"])
        a = BASE[0]["a"]
        calls = [("ThresholdOptimizer.predict", lambda: ThresholdOptimizer(estimator=ExactLearner()).predict(X, sensitive_features=a)),
                 ("ThresholdOptimizer._pmf_predict", lambda: ThresholdOptimizer(estimator=ExactLearner())._pmf_predict(X, sensitive_features=a)),
                 ("ExponentiatedGradient.predict", lambda: red.ExponentiatedGradient(ExactLearner(), red.DemographicParity()).predict(X)),
                 ("ExponentiatedGradient._pmf_predict", lambda: red.ExponentiatedGradient(ExactLearner(), red.DemographicParity())._pmf_predict(X)),
                 ("GridSearch.predict", lambda: red.GridSearch(ExactLearner(), red.DemographicParity()).predict(X)),
                 ("GridSearch.predict_proba", lambda: red.GridSearch(ExactLearner(), red.DemographicParity()).predict_proba(X)),
                 ("CorrelationRemover.transform", lambda: CorrelationRemover(sensitive_feature_ids=[0]).transform(np.array([[0.0, 1.0], [1.0, 0.0]]))),
                 ("AdversarialFairnessClassifier.predict", lambda: __import__("fairlearn.adversarial", fromlist=["x"]).AdversarialFairnessClassifier(backend="torch").predict(X))]
        what, fn = calls[case["i"]]
        out["evals"] += 1
        try:
            r = fn()
            V.append(viol("C20:not-fitted:%s" % what, "%s before fit returned %r instead of raising NotFittedError" % (what, type(r).__name__)))
        except NotFittedError:
            pass
        except Exception as ex:
            V.append(viol("C20:not-fitted-wrong-exception:%s" % what, "%s before fit raised %s (%s) instead of NotFittedError" % (what, type(ex).__name__, str(ex)[:100])))
    out["classes"] = sorted(out["classes"])
    return out


LEVEL_TEXT = ("Every single fault of the alphabet is injected at every argument position of every entry point, in every accepted container "
              "type and at every row position, into two valid base datasets that are first shown to be accepted; the oracle is simply that "
              "the call raises. The suite tests a few hand-picked invalid inputs per function; the cross product fault x argument x "
              "container x position is only reachable by enumeration.")
LEVEL_NOTE = "One fault per case (pairs of length faults in thorough); faults documented as accepted (broadcast scalars etc.) are excluded, see ASSUMPTIONS."
TECHNIQUE = "exhaustive single-fault injection over entry point x argument x container x position on the real code"
