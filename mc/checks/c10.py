"""C10 - randomised predictors sample from the probability mass function they report (model_checking)."""
import itertools
import math

import numpy as np

from mc.checks import _to_common as T
from mc.engine import jhash, viol

PROPERTY = "C10"
LEVEL = "model_checking"
CHUNK = 2
NONDETERMINISM_IS_VIOLATION = True  # "reproducible for a fixed random_state" is part of the statement
RULE = ("state space = fitted models x query rows x ENVIRONMENT ANSWERS (the uniform draws consumed by predict), all owned by the "
        "explorer through a scripted numpy RandomState passed as random_state=. Models are reached by real fits: ThresholdOptimizer "
        "on every pair of two-row groups x constraint/objective x flip x grid in {2,7}; ExponentiatedGradient on the C08 quick "
        "datasets x 5 moments x {LP on, off}; ExponentiatedGradient with BoundedGroupLoss (regression) on every multiset of rows "
        "(x,group,y in {0,1/2,1}). For every model and query row the label/value as a function of the row's uniform u is explored "
        "on all cells of [0,1): candidate breakpoints (reported cumulative probabilities and complements) +-2^-30, cell midpoints, a "
        "33-point dyadic grid, bisection wherever two adjacent probes disagree; Lebesgue measure of the cells answering v must equal "
        "the reported probability of v. Layer B: real generators, integer seeds: outputs in label space and reproducible. pmf "
        "oracle: rows in [0,1] summing to 1; EG mixture by predictor id; thresholder depends only on (score, group), monotone in "
        "the score without flip. states = (model, query row) pairs; transitions = predict calls")
ASSUMPTIONS = ["predict consumes randomness only through rand/random_sample/random/uniform/choice of the RandomState it is given; a call to any "
               "other generator method marks the model 'uncontrolled' and only layer B (real seeds) is applied",
               "cells of measure zero (u exactly on a breakpoint) are not asserted"]
CLASSES = ["thresholder", "eg_classification", "eg_regression", "flip_model"]
# classes whose occurrence depends on implementation internals (reported, warned about when absent, never a hard vacuity error)
SOFT_CLASSES = ["eg_classification_unsorted_weights", "eg_regression_unsorted_weights", "p_ignore_model", "prob_strictly_between_0_1", "prob_0_or_1"]
DELTA = 2.0 ** -30


def bounds(tier, seed):
    return {"thresholder_models": "all pairs of two-row groups (45) x 6 constraints (quick: first admissible objective; thorough: all 27 pairs) x flip x grid {2,7}" + (" + pairs with three-row groups" if tier != "quick" else ""),
            "eg_models": "C08 quick datasets x 3 moments (thorough 5) x LP on/off", "eg_regression": "multisets n=%s" % ("3" if tier == "quick" else "3..4"),
            "uniform_probes_per_row": "candidates +-2^-30, midpoints, 33-point grid, bisection depth 40",
            "real_seeds": 8 if tier == "quick" else 64}


def cases(tier, seed):
    G2 = [g for g in T.group_types(3, (2,))]
    G3 = [g for g in T.group_types(3, (3,))]
    for ga, gb in itertools.combinations_with_replacement(G2, 2):
        yield {"kind": "to", "groups": [ga, gb], "seed": seed, "tier": tier}
    if tier != "quick":
        for ga in G2:
            for gb in G3[::2]:
                yield {"kind": "to", "groups": [ga, gb], "seed": seed, "tier": tier}
    from mc.checks.c08 import _datasets
    for rows in _datasets(2, 2, (3,)):
        yield {"kind": "eg", "rows": rows, "tier": tier}
    for rows in _datasets(2, 3, (3,)):
        if len({r[1] for r in rows}) == 3:
            yield {"kind": "eg", "rows": rows, "tier": tier}
    # classification runs (k=3 feature values, 3 groups, n=5, LP step off) whose weights_ index is NOT in predictor-id order:
    # found by scanning that space once (tools note in DESIGN section 2/C10); they exercise the by-label alignment of the mixture
    import json
    import os
    for spec in json.load(open(os.path.join(os.path.dirname(os.path.abspath(__file__)), "c10_unsorted_cases.json")))[: (12 if tier == "quick" else 24)]:
        yield {"kind": "eg5", "rows": spec["rows"], "moment": spec["moment"], "bound": spec["bound"], "eps": spec["eps"], "tier": tier}
    rt = [(x, g, v) for x in (0, 1) for g in "ab" for v in (0.0, 0.5, 1.0)]
    for n in ((3,) if tier == "quick" else (3, 4)):
        for ms in itertools.combinations_with_replacement(range(len(rt)), n):
            rows = [rt[i] for i in ms]
            if len({r[1] for r in rows}) < 2 or len({r[0] for r in rows}) < 2 or len({r[2] for r in rows}) < 2:
                continue  # a constant target takes EG's DummyClassifier shortcut, which scikit-learn rejects for floats (outside the statement)
            yield {"kind": "egreg", "rows": [list(r) for r in rows], "tier": tier}


def describe(case):
    return case


# ---- exploring the uniform draw of every row ------------------------------------------------------
def _explore(predict_with_script, nrows, cand_per_row, out, default=0.5):
    """predict_with_script(list of uniforms, one per row) -> (list of outputs, controlled?).

    Returns per row a dict value -> measure of {u : output(u) = value}, or None if uncontrolled."""
    pts = []
    for r in range(nrows):
        c = sorted(set([0.0, 1.0] + [min(1.0, max(0.0, float(v))) for v in cand_per_row[r]]))
        probes = set(k / 32 for k in range(1, 32))
        for v in c:
            for u in (v - DELTA, v + DELTA):
                if 0 <= u < 1:
                    probes.add(u)
        for lo, hi in zip(c, c[1:]):
            probes.add((lo + hi) / 2)
        probes.add(0.0)
        probes.add(1 - DELTA)
        pts.append(sorted(probes))
    K = max(len(p) for p in pts)
    vals = [dict() for _ in range(nrows)]
    for j in range(K):
        script = [pts[r][min(j, len(pts[r]) - 1)] for r in range(nrows)]
        res, ok = predict_with_script(script)
        out["transitions"] += 1
        if not ok:
            return None
        for r in range(nrows):
            vals[r][script[r]] = res[r]
    # bisection where adjacent probes disagree and are further apart than 4*DELTA
    for r in range(nrows):
        changed = True
        depth = 0
        while changed and depth < 40:
            changed = False
            depth += 1
            us = sorted(vals[r])
            new = [(lo + hi) / 2 for lo, hi in zip(us, us[1:]) if vals[r][lo] != vals[r][hi] and hi - lo > 4 * DELTA]
            for u in new[:8]:
                script = [default] * nrows
                script[r] = u
                res, ok = predict_with_script(script)
                out["transitions"] += 1
                vals[r][u] = res[r]
                changed = True
    measures = []
    for r in range(nrows):
        us = sorted(vals[r])
        m = {}
        edges = [0.0] + [(lo + hi) / 2 for lo, hi in zip(us, us[1:])] + [1.0]
        for i, u in enumerate(us):
            m[vals[r][u]] = m.get(vals[r][u], 0.0) + edges[i + 1] - edges[i]
        measures.append(m)
    return measures


def _check_binary(V, sigp, measures, p, ctx, out):
    for r, m in enumerate(measures):
        extra = set(m) - {0, 1}
        if extra:
            V.append(viol("%s:label-outside-{0,1}" % sigp, "predict returned %r for row %d (%s)" % (sorted(extra), r, ctx)))
            continue
        m1 = m.get(1, 0.0)
        if 0 < p[r] < 1:
            out["classes"].add("prob_strictly_between_0_1")
        else:
            out["classes"].add("prob_0_or_1")
        if abs(m1 - p[r]) > 8 * DELTA:
            V.append(viol("%s:measure" % sigp, "row %d: measure of uniform draws answering 1 is %.9f, reported probability %.9f (%s)" % (r, m1, p[r], ctx),
                          p[r], m1))


def _scripted_predict(fn, nrows):
    from mc.stubs import Scripted

    def run(script):
        rs = Scripted(script)
        res = fn(rs)
        res = np.atleast_1d(np.asarray(res)).tolist()
        ok = not rs.uncontrolled and len(res) == nrows
        return res, ok
    return run


def _layer_b(V, sigp, fn, p, tier, ctx, label_ok):
    K = 8 if tier == "quick" else 64
    for s in range(K):
        a1 = np.atleast_1d(np.asarray(fn(s))).tolist()
        a2 = np.atleast_1d(np.asarray(fn(s))).tolist()
        if a1 != a2:
            V.append(viol("%s:seed-not-reproducible" % sigp, "predict with random_state=%d gave %r then %r (%s)" % (s, a1, a2, ctx)))
            return
        for r, v in enumerate(a1):
            if not label_ok(r, v):
                V.append(viol("%s:label-space" % sigp, "predict returned %r for row %d with seed %d (%s)" % (v, r, s, ctx)))
                return
            if p is not None and p[r] in (0.0, 1.0) and v != int(p[r]):
                V.append(viol("%s:deterministic-row" % sigp, "row %d has probability %r but seed %d gave %r (%s)" % (r, p[r], s, v, ctx)))
                return


def _run_to(case):
    from fairlearn.postprocessing import ThresholdOptimizer

    from mc.stubs import prefit_score

    y, s, a = T.dataset(dict(case, configs="x"))
    n = len(y)
    X = np.array(s).reshape(-1, 1)
    out = {"evals": 0, "violations": [], "classes": {"thresholder"}, "states": [], "transitions": 0, "traces": 0, "nontrivial": True}
    V = out["violations"]
    est = prefit_score()
    pal = sorted(set(T.SCORE_PALETTES[case["seed"] % 4]))
    grid_scores = sorted(set(pal + [(u + v) / 2 for u, v in zip(pal, pal[1:])] + [pal[0] - 1.0, pal[-1] + 1.0]))
    labels = sorted(set(a))
    Xq = np.array([sc for g in labels for sc in grid_scores] + s).reshape(-1, 1)
    aq = [g for g in labels for _ in grid_scores] + a
    nq = len(aq)
    outcome = []
    for c, obj, flip, gs in T.config_list([2, 7], "first" if case["tier"] == "quick" else "all"):
        ctx = "ThresholdOptimizer constraints=%s objective=%s flip=%s grid_size=%d y=%r scores=%r groups=%r" % (c, obj, flip, gs, y, s, a)
        t_ = ThresholdOptimizer(estimator=est, constraints=c, objective=obj, prefit=True, predict_method="predict", grid_size=gs, flip=flip)
        t_.fit(X, y, sensitive_features=a)
        out["evals"] += 1
        pmf = np.asarray(t_._pmf_predict(Xq, sensitive_features=aq), float)
        if pmf.shape != (nq, 2) or not np.all(np.isfinite(pmf)) or (pmf < -1e-12).any() or (pmf > 1 + 1e-12).any() or (np.abs(pmf.sum(axis=1) - 1) > 1e-9).any():
            V.append(viol("C10:thresholder:pmf-invalid", "pmf rows not a distribution: %r (%s)" % (pmf.tolist()[:4], ctx)))
            continue
        p = pmf[:, 1].tolist()
        for b in t_.interpolated_thresholder_.interpolation_dict.values():
            if b.get("p_ignore", 0) > 0:
                out["classes"].add("p_ignore_model")
        if flip:
            out["classes"].add("flip_model")
        # depends only on (score, group): permute and duplicate the query rows
        perm = list(range(nq))[::-1] + [0, 0, nq - 1]
        pmf2 = np.asarray(t_._pmf_predict(Xq[perm], sensitive_features=[aq[i] for i in perm]), float)[:, 1]
        if not np.allclose(pmf2, [p[i] for i in perm], rtol=0, atol=1e-12):
            V.append(viol("C10:thresholder:pmf-depends-on-position", "pmf changes when query rows are permuted/duplicated (%s)" % ctx))
        if not flip:
            k = len(grid_scores)
            for gi, g in enumerate(labels):
                seg = p[gi * k:(gi + 1) * k]
                if any(seg[i] > seg[i + 1] + 1e-12 for i in range(k - 1)):
                    V.append(viol("C10:thresholder:not-monotone", "positive probability decreases with the score in group %r without flip: %r (%s)" % (g, seg, ctx)))
        # layer A on the training rows + grid
        fn = lambda rs: t_.predict(Xq, sensitive_features=aq, random_state=rs)  # noqa: E731
        cands = [[pi, 1 - pi] for pi in p]
        meas = _explore(_scripted_predict(fn, nq), nq, cands, out)
        for r in range(nq):
            out["states"].append(jhash([c, obj, flip, gs, case["groups"], r]))
        out["traces"] += 1
        if meas is None:
            out["classes"].add("uncontrolled_randomness")
        else:
            _check_binary(V, "C10:thresholder", meas, p, ctx, out)
        _layer_b(V, "C10:thresholder", lambda sd: t_.predict(Xq, sensitive_features=aq, random_state=sd), p, case["tier"], ctx, lambda r, v: v in (0, 1))
        outcome.append([round(v, 9) for v in p[:6]])
    out["outcome"] = outcome
    out["classes"] = sorted(out["classes"])
    return out


def _run_eg(case):
    import fairlearn.reductions as red

    from mc.ref.moments import PARITY
    from mc.stubs import ExactLearner

    rows = case["rows"]
    X = np.array([[r[0]] for r in rows], float)
    a = [r[1] for r in rows]
    y = [r[2] for r in rows]
    out = {"evals": 0, "violations": [], "classes": {"eg_classification"}, "states": [], "transitions": 0, "traces": 0, "nontrivial": True}
    V = out["violations"]
    Xq = np.array([[0.0], [1.0], [0.0], [1.0], [1.0]])
    nq = len(Xq)
    outcome = []
    if case["kind"] == "eg5":
        plan = [(case["moment"], False, case["bound"], case["eps"], 12)]
        Xq = np.array([[0.0], [1.0], [2.0], [1.0], [2.0]])
    else:
        plan = [(nm, lp, 0.1, 0.05, 8) for nm in (PARITY if case["tier"] != "quick" else ["DemographicParity", "EqualizedOdds", "ErrorRateParity"]) for lp in (True, False)]
    for name, lp, bnd, eps_, mi in plan:
        if True:
            ctx = "ExponentiatedGradient %s(difference_bound=%r) eps=%r max_iter=%d LP=%s rows=%r" % (name, bnd, eps_, mi, lp, rows)
            eg = red.ExponentiatedGradient(ExactLearner(), getattr(red, name)(difference_bound=bnd), eps=eps_, max_iter=mi, run_linprog_step=lp)
            eg.fit(X, np.array(y), sensitive_features=np.array(a))
            out["evals"] += 1
            pmf = np.asarray(eg._pmf_predict(Xq), float)
            if pmf.shape != (nq, 2) or not np.all(np.isfinite(pmf)) or (pmf < -1e-12).any() or (pmf > 1 + 1e-12).any() or (np.abs(pmf.sum(axis=1) - 1) > 1e-9).any():
                V.append(viol("C10:eg:pmf-invalid", "pmf rows not a distribution: %r (%s)" % (pmf.tolist(), ctx)))
                continue
            w = eg.weights_
            if list(w.index) != sorted(w.index):
                out["classes"].add("eg_classification_unsorted_weights")
            mix = np.zeros(nq)
            for t in w.index:
                if w[t] != 0:
                    mix += float(w[t]) * np.asarray(eg.predictors_[t].predict(Xq), float).ravel()
            if not np.allclose(pmf[:, 1], mix, rtol=0, atol=1e-12):
                V.append(viol("C10:eg:pmf-not-mixture", "positive probability %r != weights_-mixture of predictors_ %r (weights %r) (%s)" % (
                    pmf[:, 1].tolist(), mix.tolist(), w.to_dict(), ctx), mix.tolist(), pmf[:, 1].tolist()))
            p = pmf[:, 1].tolist()
            # the SAME array object, modified in place between two calls: the probabilities must follow the new contents
            Xm = Xq.copy()
            eg._pmf_predict(Xm)
            Xm[:] = Xm[::-1].copy()
            mixm = np.zeros(nq)
            for t in w.index:
                if w[t] != 0:
                    mixm += float(w[t]) * np.asarray(eg.predictors_[t].predict(Xm), float).ravel()
            pm2 = np.asarray(eg._pmf_predict(Xm), float)[:, 1]
            if not np.allclose(pm2, mixm, rtol=0, atol=1e-12):
                V.append(viol("C10:eg:pmf-stale-after-inplace-change", "after modifying the query array in place, _pmf_predict gives %r, the mixture on the new contents is %r (%s)" % (
                    pm2.tolist(), mixm.tolist(), ctx), mixm.tolist(), pm2.tolist()))
            fn = lambda rs: eg.predict(Xq, random_state=rs)  # noqa: E731
            meas = _explore(_scripted_predict(fn, nq), nq, [[pi, 1 - pi] for pi in p], out)
            for r in range(nq):
                out["states"].append(jhash([name, lp, rows, r]))
            out["traces"] += 1
            if meas is None:
                out["classes"].add("uncontrolled_randomness")
            else:
                _check_binary(V, "C10:eg", meas, p, ctx, out)
            _layer_b(V, "C10:eg", lambda sd: eg.predict(Xq, random_state=sd), p, case["tier"], ctx, lambda r, v: v in (0, 1))
            outcome.append([name, lp, [round(v, 9) for v in p]])
    out["outcome"] = outcome
    out["classes"] = sorted(out["classes"])
    return out


def _run_egreg(case):
    import fairlearn.reductions as red

    from mc.stubs import MeanRegressor as ExactRegressor

    rows = case["rows"]
    X = np.array([[r[0]] for r in rows], float)
    a = [r[1] for r in rows]
    y = [r[2] for r in rows]
    out = {"evals": 0, "violations": [], "classes": {"eg_regression"}, "states": [], "transitions": 0, "traces": 0, "nontrivial": True}
    V = out["violations"]
    Xq = np.array([[0.0], [1.0], [1.0], [0.0]])
    nq = len(Xq)
    outcome = []
    for lp in (True, False):
        for ub in (0.1, 0.02):
            ctx = "ExponentiatedGradient BoundedGroupLoss(SquareLoss(0,1), upper_bound=%r) LP=%s rows=%r" % (ub, lp, rows)
            snip = ("import numpy as np, fairlearn.reductions as r; from mc.stubs import MeanRegressor as ExactRegressor; rows=%r; X=np.array([[q[0]] for q in rows],float); "
                    "eg=r.ExponentiatedGradient(ExactRegressor(), r.BoundedGroupLoss(r.SquareLoss(0,1), upper_bound=%r), eps=0.2, max_iter=12, run_linprog_step=%r); "
                    "eg.fit(X, np.array([q[2] for q in rows]), sensitive_features=np.array([q[1] for q in rows])); print(eg.weights_); "
                    "print([eg.predict(np.array([[0.],[1.]]), random_state=s) for s in range(5)])" % (rows, ub, lp))
            eg = red.ExponentiatedGradient(ExactRegressor(), red.BoundedGroupLoss(red.SquareLoss(0, 1), upper_bound=ub), eps=0.2, max_iter=12, run_linprog_step=lp)
            try:
                eg.fit(X, np.array(y), sensitive_features=np.array(a))
            except Exception as e:
                V.append(viol("C10:egreg:fit-raises-%s" % type(e).__name__, "fit raised %r (%s)" % (e, ctx), None, repr(e), snip))
                continue
            out["evals"] += 1
            w = eg.weights_
            if (w < 0).any() or abs(float(w.sum()) - 1) > 1e-9:
                V.append(viol("C10:egreg:weights-not-a-distribution", "weights_ has a negative entry or does not sum to 1: min %r sum %r (%s)" % (float(w.min()), float(w.sum()), ctx), None, None, snip))
            if list(w.index) != sorted(w.index):
                out["classes"].add("eg_regression_unsorted_weights")
            # reference distribution per query row: value -> total weight of the stored predictors returning it
            dist = [dict() for _ in range(nq)]
            for t in w.index:
                if w[t] > 0:
                    pv = np.asarray(eg.predictors_[t].predict(Xq), float).ravel()
                    for r in range(nq):
                        # values that agree within 1e-9 are one value (0.75 vs 0.7500000000000001 from different predictors)
                        key = next((k for k in dist[r] if abs(k - float(pv[r])) < 1e-9), float(pv[r]))
                        dist[r][key] = dist[r].get(key, 0.0) + float(w[t])
            cs = np.cumsum([float(w[t]) for t in w.index]).tolist() + np.cumsum([float(w[t]) for t in sorted(w.index)]).tolist()
            fn = lambda rs: eg.predict(Xq, random_state=rs)  # noqa: E731
            meas = _explore(_scripted_predict(fn, nq), nq, [cs] * nq, out)
            for r in range(nq):
                out["states"].append(jhash(["reg", lp, ub, rows, r]))
            out["traces"] += 1
            if meas is None:
                out["classes"].add("uncontrolled_randomness")
            else:
                for r in range(nq):
                    m = {float(k): v for k, v in meas[r].items()}
                    for v_, mv in m.items():
                        if mv > 8 * DELTA and not any(abs(v_ - k) < 1e-9 for k in dist[r]):
                            V.append(viol("C10:egreg:value-of-no-weighted-predictor", "row %d: predict returns %r on a set of draws of measure %.6f, but no stored predictor with "
                                          "positive weight outputs it (weighted outputs %r, weights_ %r) (%s)" % (r, v_, mv, dist[r], w.to_dict(), ctx), dist[r], m, snip))
                            break
                    else:
                        for k, pk in dist[r].items():
                            mk = sum(mv for v_, mv in m.items() if abs(v_ - k) < 1e-9)
                            if abs(mk - pk) > 16 * DELTA:
                                V.append(viol("C10:egreg:measure", "row %d: value %r is returned with measure %.9f, its predictors carry weight %.9f (weights_ %r) (%s)" % (
                                    r, k, mk, pk, w.to_dict(), ctx), pk, mk, snip))
                                break
            vals_ok = [set(dist[r]) for r in range(nq)]
            _layer_b(V, "C10:egreg", lambda sd: eg.predict(Xq, random_state=sd), None, case["tier"], ctx,
                     lambda r, v: any(abs(float(v) - k) < 1e-9 for k in vals_ok[r]))
            outcome.append([lp, ub, [sorted((round(k, 6), round(v, 6)) for k, v in d.items()) for d in dist]])
    out["outcome"] = outcome
    out["classes"] = sorted(out["classes"])
    return out


def run_case(case):
    return {"to": _run_to, "eg": _run_eg, "eg5": _run_eg, "egreg": _run_egreg}[case["kind"]](case)


LEVEL_TEXT = ("The only nondeterminism of predict - the uniform draws - is owned through a scripted RandomState, and for every fitted model "
              "(reached by real fits over exhaustive small dataset/configuration spaces) and every query row the whole unit interval of "
              "the draw is partitioned into cells by probing breakpoints, midpoints, a dyadic grid and bisection; the measure of the cells "
              "answering each value is compared with the reported probability. This decides 'frequencies match the pmf' exactly instead "
              "of statistically; real seeds add reproducibility and label-space checks.")
LEVEL_NOTE = "Trusts the scripted RandomState (rand/random_sample/uniform/choice answered by inverse cdf) and falls back to real seeds if other generator methods are used."
TECHNIQUE = "explicit-state exploration of environment answers (all cells of each uniform draw) on the real predict, models reached by bounded-exhaustive fits"
