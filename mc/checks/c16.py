"""C16 - adversarial training applies the documented projected-gradient update."""
import copy
import itertools

import numpy as np

from mc.engine import viol

PROPERTY = "C16"
LEVEL = "exploration"
CHUNK = 8
RULE = ("configurations: predictor hidden layers in {[], [k], [k1,k2]} (widths up to the bound, optional ReLU), adversary hidden layers in "
        "{[], [2]}, target type x sensitive type in {binary, 3-class, continuous}^2, constraints in {demographic_parity, "
        "equalized_odds}, alpha in {0,0.3,1,2}, input width 1..3, input sign +-; batches: every multiset of 2..4 rows of a 4-row "
        "alphabet that contains every class; 3 consecutive SGD steps per fit. A PytorchEngine subclass passed as backend= snapshots "
        "(deep copies) both models and the batch tensors before the real train_step and the parameters after it; reference: "
        "torch.autograd on the copies gives dLP/dW, dLA/dW, dLA/dU; expected W' = W - lr*(dLP - <dLP,dLA>_F/|dLA|^2 dLA - alpha dLA), "
        "U' = U - lr*dLA/dU; independently <(W-W')/lr + alpha dLA, dLA>_F = 0. non-trivial = some predictor tensor has >= 2 rows and a "
        "non-zero adversary gradient; distinct = distinct (configuration, batch)")
ASSUMPTIONS = ["float32 tolerance: 1e-4 relative to the tensor/gradient scale (max-norm)", "plain SGD optimisers for both players (as the statement says)",
               "TensorFlow engine: tensorflow/keras are not installed; the real TensorflowEngine.train_step is executed on a declared torch-backed shim (mc/tf_shim.py, trusted); if the engine touches an API outside the shim that part reports tf_not_executable and raises no alarm"]
CLASSES = ["tensorflow_engine_via_shim", "matrix_tensor_ge2_rows", "equalized_odds", "multiclass_target", "continuous_target", "multiclass_sensitive", "continuous_sensitive", "two_hidden_layers", "alpha_zero"]
# classes whose occurrence depends on implementation internals (reported, warned about when absent, never a hard vacuity error)
SOFT_CLASSES = ["zero_adversary_gradient_tensor"]

ROWS = [(1.0, 2.0, 0.5), (2.0, 1.0, -1.0), (-1.0, -1.5, 1.0), (0.5, -2.0, 2.0)]
LRS = [0.1, 0.05, 0.2, 0.125]
CONT = [0.3, -0.7, 1.2, 0.1]


def _archs(tier):
    wmax = 2 if tier == "quick" else 3
    out = [[]]
    for k in range(1, wmax + 1):
        out += [[k], [k, "relu"]]
    for k1, k2 in itertools.product(range(1, wmax + 1), repeat=2):
        out.append([k1, k2])
        if tier != "quick" or (k1, k2) in ((2, 2), (1, 2)):
            out.append([k1, "relu", k2])
    if tier != "quick":
        out += [[4], [6], [5, "relu"], [4, "relu", 3], [6, 2]]
    return out


def bounds(tier, seed):
    return {"predictor_architectures": _archs(tier), "adversary_architectures": [[], [2]], "alphas": [0, 0.3, 1, 2], "learning_rate": LRS[seed % 4],
            "input_width": [1, 2, 3], "steps_per_fit": 3}


def cases(tier, seed):
    types = ["binary", "multiclass", "continuous"]
    for arch in _archs(tier):
        for adv in ([], [2]):
            for ty, ta in itertools.product(types, types):
                for cons in ("demographic_parity", "equalized_odds"):
                    if tier == "quick" and adv == [2] and (ty != "binary" or ta != "binary") and arch not in ([], [2], [2, 2]):
                        continue
                    yield {"arch": arch, "adv": adv, "ty": ty, "ta": ta, "cons": cons, "seed": seed, "tier": tier}
    # TensorFlow engine through the torch-backed shim (mc/tf_shim.py): [] / [k] / [k, relu] architectures
    tf_archs = [[], [2], [2, "relu"]] if tier == "quick" else [[], [1], [2], [3], [2, "relu"], [3, "relu"], [2, 2]]
    for arch in tf_archs:
        for ty, ta in itertools.product(types, types):
            if tier == "quick" and (ty, ta) not in (("binary", "binary"), ("multiclass", "binary"), ("continuous", "continuous"), ("binary", "multiclass")):
                continue
            for cons in ("demographic_parity", "equalized_odds"):
                yield {"kind": "tf", "arch": arch, "adv": [] if arch != [2] else [2], "ty": ty, "ta": ta, "cons": cons, "seed": seed, "tier": tier}


def describe(case):
    return case


def _labels(kind, j, which):
    if kind == "binary":
        return (j % 2) if which == "y" else ((j // 2) % 2)
    if kind == "multiclass":
        return (j % 3) if which == "y" else ((j + 1) % 3)
    return CONT[j] if which == "y" else CONT[(j + 1) % 4]


def _batches(ty, ta):
    out = []
    for n in (2, 3, 4):
        for ms in itertools.combinations_with_replacement(range(4), n):
            ys = {_labels(ty, j, "y") for j in ms}
            as_ = {_labels(ta, j, "a") for j in ms}
            if ty != "continuous" and len(ys) < (2 if ty == "binary" else 3):
                continue
            if ta != "continuous" and len(as_) < (2 if ta == "binary" else 3):
                continue
            if ty == "continuous" and len(ys) < 2:
                continue
            if ta == "continuous" and len(as_) < 2:
                continue
            out.append(list(ms))
    return out


_LOG = []


def _spy_backend():
    import torch

    from fairlearn.adversarial._pytorch_engine import PytorchEngine

    class Spy(PytorchEngine):
        def train_step(self, X, Y, A):
            rec = {"pm": copy.deepcopy(self.predictor_model), "am": copy.deepcopy(self.adversary_model),
                   "X": X.detach().clone(), "Y": Y.detach().clone(), "A": A.detach().clone(),
                   "pl": self.predictor_loss, "al": self.adversary_loss, "pass_y": self.base.pass_y_}
            r = super().train_step(X, Y, A)
            rec["W_after"] = [p.detach().clone() for p in self.predictor_model.parameters()]
            rec["U_after"] = [p.detach().clone() for p in self.adversary_model.parameters()]
            _LOG.append(rec)
            return r
    return Spy, torch


def reference_update(rec, lr, alpha, torch):
    pm, am = rec["pm"], rec["am"]
    pm.train()
    am.train()
    W = list(pm.parameters())
    U = list(am.parameters())
    Y_hat = pm(rec["X"])
    LP = rec["pl"](Y_hat, rec["Y"])
    dLP = torch.autograd.grad(LP, W, retain_graph=True, allow_unused=True)
    inp = torch.cat((Y_hat, rec["Y"]), dim=1) if rec["pass_y"] else Y_hat
    LA = rec["al"](am(inp), rec["A"])
    dLA = torch.autograd.grad(LA, W, retain_graph=True, allow_unused=True)
    dLU = torch.autograd.grad(LA, U, allow_unused=True)
    z = lambda g, p: torch.zeros_like(p) if g is None else g.detach()  # noqa: E731
    dLP = [z(g, p) for g, p in zip(dLP, W)]
    dLA = [z(g, p) for g, p in zip(dLA, W)]
    dLU = [z(g, p) for g, p in zip(dLU, U)]
    expW, expU = [], []
    for w, gp, ga in zip(W, dLP, dLA):
        gpd, gad = gp.double(), ga.double()  # projection coefficient in float64: |dLA|^2 underflows in float32 for tiny gradients
        n2 = float((gad * gad).sum())
        proj = ((float((gpd * gad).sum()) / n2) * gad).float() if n2 > 0 else torch.zeros_like(ga)
        expW.append(w.detach() - lr * (gp - proj - alpha * ga))
    for u, gu in zip(U, dLU):
        expU.append(u.detach() - lr * gu)
    return [w.detach().clone() for w in W], dLP, dLA, expW, expU


def run_case(case):
    if case.get("kind") == "tf":
        return _run_tf(case)
    from fairlearn.adversarial import AdversarialFairnessClassifier, AdversarialFairnessRegressor

    Spy, torch = _spy_backend()
    torch.set_num_threads(1)
    arch = [torch.nn.ReLU() if a == "relu" else a for a in case["arch"]]
    ty, ta, cons = case["ty"], case["ta"], case["cons"]
    lr = LRS[case["seed"] % 4]
    out = {"evals": 0, "violations": [], "classes": set(), "nontrivial": False}
    V = out["violations"]
    if cons == "equalized_odds":
        out["classes"].add("equalized_odds")
    out["classes"].add({"binary": "binary_target", "multiclass": "multiclass_target", "continuous": "continuous_target"}[ty])
    out["classes"].add({"binary": "binary_sensitive", "multiclass": "multiclass_sensitive", "continuous": "continuous_sensitive"}[ta])
    if sum(1 for a in case["arch"] if isinstance(a, int)) == 2:
        out["classes"].add("two_hidden_layers")
    Est = AdversarialFairnessRegressor if ty == "continuous" else AdversarialFairnessClassifier
    batches = _batches(ty, ta)
    if case["tier"] == "quick":
        batches = batches[:6] + batches[-2:]
    outcome = []
    combos = [(a, d, s) for a in (0.0, 0.3, 1.0, 2.0) for d in (1, 2, 3) for s in (1.0, -1.0)]
    for bi, ms in enumerate(batches):
        # deviation-bounded product: every (alpha, width, sign) combination is used, rotated over the batches
        for alpha, d, sign in (combos if case["tier"] != "quick" else [combos[(bi * 5 + k) % len(combos)] for k in range(4)]):
            X = np.array([[sign * v for v in ROWS[j][:d]] for j in ms], float)
            y = np.array([_labels(ty, j, "y") for j in ms])
            A = np.array([_labels(ta, j, "a") for j in ms])
            if alpha == 0.0:
                out["classes"].add("alpha_zero")
            ctx = "arch=%r adversary=%r target=%s sensitive=%s %s alpha=%r lr=%r X=%r y=%r A=%r" % (
                case["arch"], case["adv"], ty, ta, cons, alpha, lr, X.tolist(), y.tolist(), A.tolist())
            del _LOG[:]
            est = Est(backend=Spy, predictor_model=list(arch), adversary_model=list(case["adv"]), predictor_optimizer="SGD", adversary_optimizer="SGD",
                      learning_rate=lr, alpha=alpha, constraints=cons, batch_size=-1, epochs=3, shuffle=False, random_state=0)
            out["evals"] += 1
            try:
                est.fit(X, y, sensitive_features=A)
            except Exception as e:
                V.append(viol("C16:fit-raises-%s" % type(e).__name__, "fit raised %r (%s)" % (e, ctx)))
                continue
            if len(_LOG) != 3:
                V.append(viol("C16:steps", "%d train steps observed, expected 3 (%s)" % (len(_LOG), ctx)))
                continue
            for si, rec in enumerate(_LOG):
                W0, dLP, dLA, expW, expU = reference_update(rec, lr, alpha, torch)
                if any(not torch.isfinite(w).all() for w in W0):
                    break  # parameters already non-finite from an earlier (reported) step
                for ti, (w0, gp, ga, ew, ow) in enumerate(zip(W0, dLP, dLA, expW, rec["W_after"])):
                    rows = w0.shape[0] if w0.dim() == 2 else 1
                    gnorm = float(ga.double().norm())
                    zero_ga = gnorm == 0.0
                    if (not torch.isfinite(ew).all() or float(w0.abs().max()) > 1e12 or not torch.isfinite(gp).all() or not torch.isfinite(ga).all()
                            or float(gp.abs().max()) > 1e12 or float(ga.abs().max()) > 1e12):
                        out["classes"].add("diverged_training_not_asserted")
                        break  # the documented update itself is non-finite / astronomically large: training diverged, nothing to compare
                    if 0.0 < gnorm < 1e-10:
                        out["classes"].add("tiny_adversary_gradient_not_asserted")
                        continue  # the engine's epsilon guard dominates a gradient this small; the statement does not fix that regime
                    if zero_ga:
                        out["classes"].add("zero_adversary_gradient_tensor")
                    if rows >= 2 and w0.dim() == 2 and w0.shape[1] >= 1 and not zero_ga:
                        out["classes"].add("matrix_tensor_ge2_rows")
                        out["nontrivial"] = True
                    if not torch.isfinite(ow).all():
                        sig = "C16:update:nan-zero-adversary-gradient" if zero_ga or any(float((g * g).sum()) == 0.0 for g in dLA) else "C16:update:non-finite"
                        V.append(viol(sig, "step %d: predictor tensor %d (shape %r) became non-finite: %r; expected %r (%s)" % (
                            si, ti, tuple(w0.shape), ow.tolist(), ew.tolist(), ctx), ew.tolist(), ow.tolist()))
                        break
                    tol = 1e-4 * max(1.0, float(ew.abs().max()), lr * (float(gp.abs().max()) + (1 + alpha) * float(ga.abs().max())))
                    if float((ow - ew).abs().max()) > tol:
                        gobs = (w0 - ow) / lr
                        ortho = float(((gobs + alpha * ga) * ga).sum())
                        V.append(viol("C16:predictor-update:%s" % ("matrix" if w0.dim() == 2 and rows >= 2 else "vector"),
                                      "step %d: predictor tensor %d (shape %r) after the step is %r, projected-gradient update gives %r; <g+alpha*dLA, dLA>_F = %.3g (%s)" % (
                                          si, ti, tuple(w0.shape), np.round(ow.numpy(), 6).tolist(), np.round(ew.numpy(), 6).tolist(), ortho, ctx),
                                      ew.tolist(), ow.tolist()))
                        break
                    if not zero_ga:
                        gobs = (w0 - ow) / lr
                        ortho = float(((gobs + alpha * ga) * ga).sum())
                        # the cancellation happens at the magnitude of the UNPROJECTED gradient: scale with |dLP| (not with the possibly tiny result)
                        scale = float(ga.norm()) * (float(gp.norm()) + float(gobs.norm()) + alpha * float(ga.norm())) + 1e-12
                        if abs(ortho) > 1e-4 * scale + 1e-6 + 4e-7 * (float(w0.abs().max()) / lr + 1.0) * float(ga.abs().sum()):
                            V.append(viol("C16:orthogonality", "step %d tensor %d: <g + alpha*dLA, dLA>_F = %.4g (scale %.3g) (%s)" % (si, ti, ortho, scale, ctx)))
                            break
                else:
                    for ti, (eu, ou) in enumerate(zip(expU, rec["U_after"])):
                        if not torch.isfinite(ou).all() or float((ou - eu).abs().max()) > 1e-4 * max(1.0, float(eu.abs().max())):
                            V.append(viol("C16:adversary-update", "step %d: adversary tensor %d is %r, plain gradient step gives %r (%s)" % (
                                si, ti, np.round(ou.numpy(), 6).tolist(), np.round(eu.numpy(), 6).tolist(), ctx), eu.tolist(), ou.tolist()))
                            break
                    continue
                break
            if bi == 0:
                outcome.append([round(float(p.detach().sum()), 5) for p in _LOG[-1]["W_after"]])
    out["outcome"] = outcome
    out["classes"] = sorted(out["classes"])
    return out


def _run_tf(case):
    """The real TensorflowEngine.train_step, executed on the declared torch-backed shim."""
    import torch

    from mc import tf_shim

    out = {"evals": 0, "violations": [], "classes": set(), "nontrivial": False}
    V = out["violations"]
    mode = tf_shim.install()
    torch.set_num_threads(1)
    from fairlearn.adversarial import AdversarialFairnessClassifier, AdversarialFairnessRegressor
    try:
        from fairlearn.adversarial._tensorflow_engine import TensorflowEngine
    except Exception:
        out["classes"] = ["tf_not_executable"]
        return out
    if mode != "shim":
        out["classes"] = ["tf_real_tensorflow_present"]
        return out
    log = []

    class SpyTF(TensorflowEngine):
        def train_step(self, X, Y, A):
            # force the lazily built layers to exist before the snapshot (same RNG order as the real step)
            yh = self.predictor_model(X)
            import tensorflow
            self.adversary_model(tensorflow.concat((yh, Y), axis=1) if self.base.pass_y_ else yh)
            rec = {"pm": copy.deepcopy(self.predictor_model), "am": copy.deepcopy(self.adversary_model), "X": X, "Y": Y, "A": A,
                   "pl": self.predictor_loss, "al": self.adversary_loss, "pass_y": self.base.pass_y_}
            r = super().train_step(X, Y, A)
            rec["W_after"] = [p.detach().clone() for p in self.predictor_model.trainable_variables]
            rec["U_after"] = [p.detach().clone() for p in self.adversary_model.trainable_variables]
            log.append(rec)
            return r

    ty, ta, cons = case["ty"], case["ta"], case["cons"]
    lr = LRS[case["seed"] % 4]
    out["classes"].add("tensorflow_engine_via_shim")
    Est = AdversarialFairnessRegressor if ty == "continuous" else AdversarialFairnessClassifier
    batches = _batches(ty, ta)
    batches = batches[:3] + batches[-1:]
    for bi, ms in enumerate(batches):
        for alpha, d, sign in [(0.0, 2, 1.0), (1.0, 3, -1.0), (0.3, 1, 1.0)][: (2 if case["tier"] == "quick" else 3)]:
            X = np.array([[sign * v for v in ROWS[j][:d]] for j in ms], float)
            y = np.array([_labels(ty, j, "y") for j in ms])
            A = np.array([_labels(ta, j, "a") for j in ms])
            ctx = "TensorflowEngine(shim) arch=%r adversary=%r target=%s sensitive=%s %s alpha=%r lr=%r X=%r y=%r A=%r" % (
                case["arch"], case["adv"], ty, ta, cons, alpha, lr, X.tolist(), y.tolist(), A.tolist())
            del log[:]
            est = Est(backend=SpyTF, predictor_model=list(case["arch"]), adversary_model=list(case["adv"]), predictor_optimizer="SGD", adversary_optimizer="SGD",
                      learning_rate=lr, alpha=alpha, constraints=cons, batch_size=-1, epochs=2, shuffle=False, random_state=0)
            out["evals"] += 1
            try:
                est.fit(X, y, sensitive_features=A)
            except (AttributeError, KeyError, TypeError, NotImplementedError) as e:
                # the engine touched an API outside the shim: not executable here, never an alarm
                out["classes"].add("tf_not_executable")
                out["tf_error"] = repr(e)[:200]
                continue
            except Exception as e:
                V.append(viol("C16:tf:fit-raises-%s" % type(e).__name__, "fit raised %r (%s)" % (e, ctx)))
                continue
            for si, rec in enumerate(log):
                pm, am = rec["pm"], rec["am"]
                W, U = pm.trainable_variables, am.trainable_variables
                import tensorflow
                yh = pm(rec["X"])
                LP = rec["pl"](rec["Y"], yh)
                gP = torch.autograd.grad(LP, W, retain_graph=True, allow_unused=True)
                inp = tensorflow.concat((yh, rec["Y"]), axis=1) if rec["pass_y"] else yh
                LA = rec["al"](rec["A"], am(inp))
                gA = torch.autograd.grad(LA, W, retain_graph=True, allow_unused=True)
                gU = torch.autograd.grad(LA, U, allow_unused=True)
                z = lambda g, p: torch.zeros_like(p) if g is None else g.detach().as_subclass(torch.Tensor)  # noqa: E731
                bad = False
                for ti, (w, gp, ga, ow) in enumerate(zip(W, gP, gA, rec["W_after"])):
                    gp, ga = z(gp, w), z(ga, w)
                    n2 = float((ga * ga).sum())
                    proj = (float((gp * ga).sum()) / n2) * ga if n2 > 0 else torch.zeros_like(ga)
                    ew = w.detach().as_subclass(torch.Tensor) - lr * (gp - proj - alpha * ga)
                    ow = ow.as_subclass(torch.Tensor)
                    if w.dim() == 2 and w.shape[0] >= 2 and w.shape[1] >= 2 and n2 > 0:
                        out["nontrivial"] = True
                        out["classes"].add("matrix_tensor_ge2_rows")
                    tol = 1e-4 * max(1.0, float(ew.abs().max()), lr * (float(gp.abs().max()) + (1 + alpha) * float(ga.abs().max())))
                    if not torch.isfinite(ow).all() or float((ow - ew).abs().max()) > tol:
                        V.append(viol("C16:tf:predictor-update", "step %d: predictor tensor %d (shape %r) is %r, projected-gradient update gives %r (%s)" % (
                            si, ti, tuple(w.shape), np.round(ow.numpy(), 6).tolist(), np.round(ew.numpy(), 6).tolist(), ctx), ew.tolist(), ow.tolist()))
                        bad = True
                        break
                if bad:
                    break
                for ti, (u, gu, ou) in enumerate(zip(U, gU, rec["U_after"])):
                    eu = u.detach().as_subclass(torch.Tensor) - lr * z(gu, u)
                    ou = ou.as_subclass(torch.Tensor)
                    if not torch.isfinite(ou).all() or float((ou - eu).abs().max()) > 1e-4 * max(1.0, float(eu.abs().max())):
                        V.append(viol("C16:tf:adversary-update", "step %d: adversary tensor %d is %r, plain gradient step gives %r (%s)" % (
                            si, ti, np.round(ou.numpy(), 6).tolist(), np.round(eu.numpy(), 6).tolist(), ctx)))
                        bad = True
                        break
                if bad:
                    break
    out["classes"] = sorted(out["classes"])
    return out


LEVEL_TEXT = ("Every architecture shape up to the width bound x target/sensitive type x constraint, over every admissible small batch and a "
              "rotating cover of (alpha, input width, sign), is trained for three real SGD steps through a spying backend subclass; each "
              "parameter tensor after each step is compared with an autograd-based reference of the documented update, and the "
              "orthogonality identity is checked independently. Layer shapes with several rows and dead-ReLU tensors with an exactly "
              "zero adversary gradient are enumerated deliberately: the suite only uses one-row tensors, where the wrong inner product "
              "is invisible.")
LEVEL_NOTE = "Trusts torch.autograd for the reference gradients and deep copies of the user-visible models; float32 tolerances."
TECHNIQUE = "bounded-exhaustive enumeration of configurations x batches on the real training step against an autograd reference model"
