"""C07 - reduction identity: signed weights are the exact gradient of the Lagrangian."""
import itertools

import numpy as np
import pandas as pd

from mc.checks import _mom_common as MC
from mc.engine import close, viol
from mc.ref.moments import PARITY, err_rate, events_of, ref_gamma

PROPERTY = "C07"
LEVEL = "exploration"
CHUNK = 4
RULE = ("datasets / moments / bounds as C06. For each loaded moment: every unit multiplier e_j x every unit predictor e_i (plus the "
        "zero predictor): gamma_j(e_i)-gamma_j(0) == -(1/n) signed_weights(e_j)_i; linearity of signed_weights and affinity of gamma "
        "on all pairs of basis elements and two palette combinations (so the basis argument covers all lambda>=0 and soft h); "
        "consequence: for a lambda grid {0,1/2,2}^k with <=2 non-zero entries, the predictor 1[w>0] (w = objective + constraint "
        "signed weights) attains min over ALL 2^n hard predictors of error + lambda.gamma computed from the reference gamma; "
        "project_lambda(lambda) >= 0 and Lagrangian(h, projected) >= Lagrangian(h, lambda) for all 2^n hard predictors; loss "
        "moments: lambda.gamma(h) == (1/n) sum w_i loss_i(h); ErrorRate objective weights (cost palette); every moment/objective object "
        "that was loaded and used with other data first must, after load_data(D), agree with a freshly loaded object. non-trivial = >=2 groups")
ASSUMPTIONS = ["identity established on a basis; linearity/affinity themselves are checked, not assumed",
               "the relabel/reweight step as used by GridSearch is observed in C09, by ExponentiatedGradient in C08"]
CLASSES = ["reloaded_object", "control_strata", "ratio_bound", "best_response_checked", "loss_moment", "two_nonzero_lambda"]
# classes whose occurrence depends on implementation internals (reported, warned about when absent, never a hard vacuity error)
SOFT_CLASSES = ["projection_changes_lambda"]

def cases(tier, seed):
    return MC.cases(tier, seed, light=True)


def bounds(tier, seed):
    b = MC.bounds(tier, seed)
    b["thorough"] = "G<=3 n<=5; G=4 n<=4; G<=3 2 strata n<=4; G=2 3 strata n<=3"
    return b


describe = MC.describe


def _lam(index, entries):
    s = pd.Series(0.0, index=index)
    for j, v in entries:
        s.iloc[j] = v
    return s


def run_case(case):
    import fairlearn.reductions as red

    y, a, c = MC.data(case)
    n = len(y)
    tier, seed = case["tier"], case["seed"]
    out = {"evals": 0, "violations": [], "classes": set(), "nontrivial": len(set(a)) > 1}
    V = out["violations"]
    if c is not None:
        out["classes"].add("control_strata")
    ctx0 = "y=%r a=%r c=%r" % (y, a, c)
    hards = list(itertools.product((0.0, 1.0), repeat=n))
    units = [[1.0 if j == i else 0.0 for j in range(n)] for i in range(n)]
    zero = [0.0] * n
    soft = list(MC.SOFT[seed % 4][:n])
    outcome = []
    obj = red.ErrorRate()
    X = np.arange(n).reshape(-1, 1)
    obj.load_data(X, np.array(y), sensitive_features=np.array(a))
    ow = np.asarray(obj.signed_weights(), float)
    for i in range(n):
        if not close(ow[i], 2.0 * y[i] - 1.0, 0):
            V.append(viol("C07:ErrorRate:objective-weights", "ErrorRate.signed_weights()[%d]=%r expected %r (%s)" % (i, ow[i], 2.0 * y[i] - 1.0, ctx0)))
    # cost-sensitive objective: gamma(h) - gamma(h') == -(1/n) sum_i w_i (h_i - h'_i), w = -c_fp + (c_fp + c_fn) * y
    for costs in ({"fp": 2.0, "fn": 1.0}, {"fp": 0.0, "fn": 3.0}, {"fp": 0.5, "fn": 0.25}):
        oc = red.ErrorRate(costs=costs)
        oc.load_data(X, np.array(y), sensitive_features=np.array(a))
        wc = np.asarray(oc.signed_weights(), float)
        g00 = float(oc.gamma(MC.as_pred(zero)).iloc[0])
        for i in range(n):
            out["evals"] += 1
            exp_w = -costs["fp"] + (costs["fp"] + costs["fn"]) * y[i]
            gi = float(oc.gamma(MC.as_pred(units[i])).iloc[0])
            if abs(wc[i] - exp_w) > 1e-12 or abs((gi - g00) - (-wc[i] / n)) > 1e-12:
                V.append(viol("C07:ErrorRate-costs:identity", "ErrorRate(costs=%r): weight[%d]=%r (expected %r), gamma(e_%d)-gamma(0)=%r, -(1/n)w=%r (%s)" % (
                    costs, i, wc[i], exp_w, i, gi - g00, -wc[i] / n, ctx0), exp_w, float(wc[i])))
                break
        # lambda-scaled weights
        lam1 = pd.Series([1.5], index=oc.index)
        if not np.allclose(np.asarray(oc.signed_weights(lam1), float), 1.5 * wc, rtol=0, atol=1e-12):
            V.append(viol("C07:ErrorRate-costs:lambda-scaling", "signed_weights(1.5) != 1.5*signed_weights() (%s)" % ctx0))
    for name in PARITY:
        if all(e is None for e in events_of(name, y, c)):
            continue
        for spec in MC.bound_specs(tier):
            out["evals"] += 1
            m, ratio, slack = MC.load(name, spec, y, a, c)
            idx = m.index
            k = len(idx)
            if spec[0] == "ratio":
                out["classes"].add("ratio_bound")
            ctx = "%s%r %s" % (name, spec, ctx0)
            g0 = np.asarray(m.gamma(MC.as_pred(zero)), float)
            G = np.array([np.asarray(m.gamma(MC.as_pred(u)), float) for u in units])  # n x k
            W = np.array([np.asarray(m.signed_weights(_lam(idx, [(j, 1.0)])), float) for j in range(k)])  # k x n
            out["evals"] += n + k + 1
            # unit identity
            for j in range(k):
                for i in range(n):
                    lhs = G[i, j] - g0[j]
                    rhs = -W[j, i] / n
                    if not close(lhs, rhs, 1e-12) and abs(lhs - rhs) > 1e-12:
                        V.append(viol("C07:%s:unit-identity" % name, "gamma_%s(e_%d)-gamma(0)=%r but -(1/n) w_%d=%r (%s)" % (tuple(idx[j]), i, lhs, i, rhs, ctx), rhs, lhs))
            # linearity of signed_weights, affinity of gamma
            for j1, j2 in itertools.combinations(range(k), 2):
                w12 = np.asarray(m.signed_weights(_lam(idx, [(j1, 1.0), (j2, 2.0)])), float)
                if not np.allclose(w12, W[j1] + 2.0 * W[j2], rtol=0, atol=1e-12):
                    V.append(viol("C07:%s:signed_weights-nonlinear" % name, "signed_weights(e_%d+2e_%d) != sum (%s)" % (j1, j2, ctx)))
            for i1, i2 in itertools.combinations(range(n), 2):
                h = [0.5 * (units[i1][t] + units[i2][t]) for t in range(n)]
                gh = np.asarray(m.gamma(MC.as_pred(h)), float)
                if not np.allclose(gh, 0.5 * (G[i1] + G[i2]), rtol=0, atol=1e-12):
                    V.append(viol("C07:%s:gamma-nonaffine" % name, "gamma((e_%d+e_%d)/2) != mean (%s)" % (i1, i2, ctx)))
            gs = np.asarray(m.gamma(MC.as_pred(soft)), float)
            pred_soft = g0 + sum(soft[i] * (G[i] - g0) for i in range(n))
            if not np.allclose(gs, pred_soft, rtol=0, atol=1e-12):
                V.append(viol("C07:%s:gamma-nonaffine" % name, "gamma(soft) != affine combination of unit gammas (%s)" % ctx))
            lam_soft = _lam(idx, [(j, MC.SOFT[(seed + 1) % 4][j % 6]) for j in range(k)])
            ws = np.asarray(m.signed_weights(lam_soft), float)
            # the same multipliers given as a Series whose labels are in ANOTHER order: matched by label, never by position
            wr = np.asarray(m.signed_weights(lam_soft[::-1]), float)
            if not np.allclose(wr, ws, rtol=0, atol=1e-12):
                V.append(viol("C07:%s:lambda-matched-by-position" % name, "signed_weights changes when the multiplier Series is given in reversed label order: %r vs %r (%s)" % (
                    wr.tolist(), ws.tolist(), ctx), ws.tolist(), wr.tolist()))
            if not np.allclose(ws, sum(lam_soft.iloc[j] * W[j] for j in range(k)), rtol=0, atol=1e-12):
                V.append(viol("C07:%s:signed_weights-nonlinear" % name, "signed_weights(palette lambda) != combination (%s)" % ctx))
            # full identity on the palette pair (lambda_soft, soft vs e_0)
            lhs = float(lam_soft.values @ gs) - float(lam_soft.values @ G[0])
            rhs = -float(np.sum(ws * (np.array(soft) - np.array(units[0])))) / n
            if abs(lhs - rhs) > 1e-12:
                V.append(viol("C07:%s:identity" % name, "lambda.gamma(h)-lambda.gamma(h')=%r, -(1/n)sum w(h-h')=%r (%s)" % (lhs, rhs, ctx), rhs, lhs))
            # consequence + projection on a lambda grid, against the REFERENCE gamma
            refG0 = ref_gamma(name, ratio, y, a, c, zero)
            keys = [tuple(t) for t in idx]
            if set(keys) != set(refG0):
                continue  # index defect: reported by C06
            refU = [ref_gamma(name, ratio, y, a, c, u) for u in units]
            g0r = np.array([refG0[t] for t in keys])
            Gr = np.array([[refU[i][t] for t in keys] for i in range(n)])
            H = np.array(hards)  # 2^n x n
            gam_all = g0r[None, :] + H @ (Gr - g0r[None, :])  # 2^n x k
            err_all = np.array([err_rate(y, h) for h in hards])
            bound = np.asarray(m.bound(), float)
            grid = [[]] + [[(j, v)] for j in range(k) for v in (0.5, 2.0)]
            if tier != "quick" or k <= 4:
                grid += [[(j1, v1), (j2, v2)] for j1, j2 in itertools.combinations(range(k), 2) for v1 in (0.5, 2.0) for v2 in (0.5, 2.0)]
                out["classes"].add("two_nonzero_lambda")
            for entries in grid:
                lam = _lam(idx, entries)
                lv = lam.values.astype(float)
                w = ow + np.asarray(m.signed_weights(lam), float)
                hstar = (w > 0).astype(float)
                L = err_all + gam_all @ lv
                Lstar = err_rate(y, hstar) + float((g0r + hstar @ (Gr - g0r[None, :])) @ lv)
                out["classes"].add("best_response_checked")
                if Lstar > L.min() + 1e-9:
                    V.append(viol("C07:%s:best-response" % name, "1[w>0] has error+lambda.gamma=%r, minimum over all hard predictors %r, lambda=%r (%s)" % (
                        Lstar, float(L.min()), entries, ctx), float(L.min()), Lstar))
                pl = m.project_lambda(lam.copy())
                pv = np.asarray(pl.reindex(idx), float)
                if (pv < -1e-15).any():
                    V.append(viol("C07:%s:projection-negative" % name, "project_lambda(%r) has negative entries %r (%s)" % (entries, pv.tolist(), ctx)))
                if not np.allclose(pv, lv):
                    out["classes"].add("projection_changes_lambda")
                Lp = err_all + (gam_all - bound[None, :]) @ pv
                Lo = err_all + (gam_all - bound[None, :]) @ lv
                if (Lp < Lo - 1e-9).any():
                    hbad = hards[int(np.argmin(Lp - Lo))]
                    V.append(viol("C07:%s:projection-lowers-lagrangian" % name, "L(h,proj)=%r < L(h,lambda)=%r for h=%r lambda=%r (%s)" % (
                        float((Lp - Lo).min() + Lo[int(np.argmin(Lp - Lo))]), float(Lo[int(np.argmin(Lp - Lo))]), hbad, entries, ctx)))
            if spec == MC.bound_specs(tier)[0]:
                outcome.append([name, np.round(W, 9).tolist()])
    # a moment / objective object that was loaded (and used) with OTHER data before: after load_data(D) everything must refer to D
    out["classes"].add("reloaded_object")
    y0 = [1 - v for v in y]
    a0 = a[1:] + a[:1]
    objs = [("ErrorRate", lambda: red.ErrorRate()), ("ErrorRate-costs", lambda: red.ErrorRate(costs={"fp": 2.0, "fn": 1.0})),
            ("BoundedGroupLoss", lambda: red.BoundedGroupLoss(red.SquareLoss(0, 1), upper_bound=0.2))]
    objs += [(nm, (lambda nm_: lambda: getattr(red, nm_)(ratio_bound=0.8))(nm)) for nm in PARITY if not all(e is None for e in events_of(nm, y, c))
             and not all(e is None for e in events_of(nm, y0, c))]
    for oname, mk in objs:
        kwc = {} if (c is None or (oname in ("ErrorRate", "ErrorRate-costs")) or oname == "BoundedGroupLoss") else {"control_features": np.array(c)}
        fresh = mk()
        fresh.load_data(X, np.array(y, float) if oname == "BoundedGroupLoss" else np.array(y), sensitive_features=np.array(a), **kwc)
        used = mk()
        try:
            used.load_data(X, np.array(y0, float) if oname == "BoundedGroupLoss" else np.array(y0), sensitive_features=np.array(a0), **kwc)
            used.gamma(MC.as_pred(soft))
            used.signed_weights(pd.Series(1.0, index=used.index)) if not (oname in ("ErrorRate", "ErrorRate-costs")) else used.signed_weights()
            used.load_data(X, np.array(y, float) if oname == "BoundedGroupLoss" else np.array(y), sensitive_features=np.array(a), **kwc)
        except Exception as ex:
            V.append(viol("C07:%s:reload-raises-%s" % (oname, type(ex).__name__), "loading an already loaded %s again raised %r (%s)" % (oname, ex, ctx0)))
            continue
        out["evals"] += 2
        idx_f, idx_u = list(fresh.index), list(used.index)
        if idx_f != idx_u:
            V.append(viol("C07:%s:stale-after-reload" % oname, "index after re-loading %r differs from a fresh object's %r (%s)" % (idx_u[:6], idx_f[:6], ctx0)))
            continue
        lamr = pd.Series([0.5 + 0.25 * j for j in range(len(idx_f))], index=fresh.index)
        wf = np.asarray(fresh.signed_weights(lamr) if not (oname in ("ErrorRate", "ErrorRate-costs")) else fresh.signed_weights(), float)
        wu = np.asarray(used.signed_weights(lamr) if not (oname in ("ErrorRate", "ErrorRate-costs")) else used.signed_weights(), float)
        gf = np.asarray(fresh.gamma(MC.as_pred(soft)), float)
        gu = np.asarray(used.gamma(MC.as_pred(soft)), float)
        if not np.allclose(wf, wu, rtol=0, atol=1e-12) or not np.allclose(gf, gu, rtol=0, atol=1e-12):
            V.append(viol("C07:%s:stale-after-reload" % oname, "after load_data(D0); use; load_data(D): signed_weights %r / gamma %r, a freshly loaded object gives %r / %r (%s)" % (
                wu.tolist(), gu.tolist(), wf.tolist(), gf.tolist(), ctx0), [wf.tolist(), gf.tolist()], [wu.tolist(), gu.tolist()]))
    # loss moments
    out["classes"].add("loss_moment")
    yreal = [0.25 * yi + 0.125 * i for i, yi in enumerate(y)]
    for lname, loss, rev in (("SquareLoss", red.SquareLoss(0.0, 1.0), False), ("AbsoluteLoss", red.AbsoluteLoss(0.0, 1.0), False),
                             ("SquareLoss-rows-reversed", red.SquareLoss(0.0, 1.0), True)):
        m = red.BoundedGroupLoss(loss, upper_bound=0.3)
        if rev:  # groups now FIRST APPEAR in reverse label order
            yreal, a = yreal[::-1], a[::-1]
        m.load_data(X, np.array(yreal), sensitive_features=np.array(a))
        idx = m.index
        for j in range(len(idx)):
            for h in (soft, units[0], zero):
                lam = pd.Series(0.0, index=idx)
                lam.iloc[j] = 1.5
                w = np.asarray(m.signed_weights(lam), float)
                wr = np.asarray(m.signed_weights(lam[::-1]), float)
                if not np.allclose(wr, w, rtol=0, atol=1e-12):
                    V.append(viol("C07:BoundedGroupLoss-%s:lambda-matched-by-position" % lname, "signed_weights changes when the multiplier Series is given in reversed label order "
                                  "(group %r, y=%r a=%r)" % (idx[j], yreal, a), w.tolist(), wr.tolist()))
                    break
                li = np.asarray(loss.eval(np.array(yreal), np.array(h)), float)
                lhs = float(lam.values @ np.asarray(m.gamma(MC.as_pred(h)), float))
                rhs = float(np.sum(w * li)) / n
                out["evals"] += 1
                if abs(lhs - rhs) > 1e-12:
                    V.append(viol("C07:BoundedGroupLoss-%s:identity" % lname, "lambda.gamma(h)=%r but (1/n)sum w_i loss_i=%r (group %r, h=%r, y=%r a=%r)" % (
                        lhs, rhs, idx[j], h, yreal, a), rhs, lhs))
    out["outcome"] = outcome
    out["classes"] = sorted(out["classes"])
    return out


LEVEL_TEXT = ("On every small dataset, every moment and bound, the identity between gamma and signed_weights is checked on the full "
              "basis of unit multipliers x unit predictors (with linearity/affinity checked rather than assumed), and its two stated "
              "consequences - best response of 1[w>0] and monotonicity of project_lambda - are checked by brute force over all 2^n "
              "hard predictors against the reference gamma. An algebraic identity over all lambda and h reduces to a finite basis; "
              "exhaustive enumeration of datasets supplies the group/event structures (ratio bounds, control strata, missing pairs).")
LEVEL_NOTE = "Trusts numpy linear algebra and the reference gamma of mc/ref/moments.py; lambda grid is {0,1/2,2} with at most two non-zero entries."
TECHNIQUE = "bounded-exhaustive enumeration (datasets x moment x bound x basis of multipliers/predictors; all 2^n hard predictors) against a reference model"
