"""C05 - ThresholdOptimizer returns the best parity-satisfying threshold rule on its grid."""
from mc.checks import _to_common as T

PROPERTY = "C05"
LEVEL = "exploration"
CHUNK = 2
RULE = ("same space as C04; oracle: an independent optimum - per group all threshold rules (cuts between distinct score levels and "
        "+-inf, both directions with flip) give (constraint,objective) points, the best randomised value at a grid x is the upper "
        "concave envelope computed by brute force over points and pairs of points; simple constraints maximise the "
        "group-frequency-weighted sum over the grid, equalized odds places all groups on the pointwise-lowest ROC envelope and "
        "maximises overall (balanced) accuracy; the objective achieved by _pmf_predict must equal it within 1e-9 and be >= the "
        "best constant classifier; non-trivial = always; distinct = distinct group tuples")
ASSUMPTIONS = ["reference envelope shares no code with the implementation; palette and size bounds as in C04"]
CLASSES = ["score_ties", "all_scores_equal_in_group", "grid_size_1", "three_or_more_groups", "near_tie_scores", "explicit_predict_method"]
# classes whose occurrence depends on implementation internals (reported, warned about when absent, never a hard vacuity error)
SOFT_CLASSES = ["p_ignore_positive", "flip_used", "randomised_between_thresholds"]

cases = T.cases
bounds = T.bounds
describe = T.describe


def run_case(case):
    return T.run_case(case, "C05")


LEVEL_TEXT = ("For every dataset/configuration of the C04 space the fitted rule's expected objective is compared with an optimum computed "
              "by brute force over all threshold rules and their pairwise mixtures; exhaustive small-scope comparison against an "
              "independent optimiser is what a suite with three examples and no reference optimum cannot provide.")
LEVEL_NOTE = "Trusts the brute-force envelope (Caratheodory: a point on the upper hull of planar points is a mixture of at most two of them)."
TECHNIQUE = "bounded-exhaustive enumeration on the real code against a brute-force reference optimiser"
