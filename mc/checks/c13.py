"""C13 - multiple sensitive/control columns group rows by tuple equality, collision-free."""
import itertools

import numpy as np
import pandas as pd

from mc.engine import viol

PROPERTY = "C13"
LEVEL = "exploration"
CHUNK = 16
RULE = ("value alphabet S = {'', 'a', ',', '\\\\', 'a,', ',a', '\\\\,', ',\\\\', '1', '1.0'} (separator, escape, combinations, empty and "
        "numeric-looking strings); (i) one table containing every tuple of S^k twice (k=2; thorough also k=3): the number of distinct "
        "groups observed through DemographicParity / BoundedGroupLoss load_data (index), the same table as control features (events) "
        "must equal the number of distinct tuples - exhaustive over all pairs of tuples at once; inputs as DataFrame, 2-D object "
        "ndarray, list of lists; (ii) EVERY unordered pair of distinct tuples of S^2 (4950) as a two-group ThresholdOptimizer problem "
        "with different label/score patterns per group: two keys in interpolation_dict and _pmf_predict on rows of either tuple, "
        "presented in another container and order, equals that tuple's own rule; every pair over a 5-value sub-alphabet also through "
        "ExponentiatedGradient and GridSearch (constraint index has two groups); (iii) the partition equals MetricFrame's non-empty "
        "cells. non-trivial = the two tuples collide under naive joining with ',' (or contain separator/escape); distinct = distinct "
        "pairs / tables")
ASSUMPTIONS = ["values are strings (the statement compares as strings)", "k=3 pairs are covered only through the all-tuples table"]
CLASSES = ["numeric_mixed_dtype_columns", "naive_join_collision", "contains_separator", "contains_escape", "empty_string", "table_dataframe", "table_ndarray", "table_list",
           "control_table", "eg_pair", "gridsearch_pair", "metricframe_partition"]
SIGMA = ["", "a", ",", "\\", "a,", ",a", "\\,", ",\\", "1", "1.0"]
SUB = ["a", ",", "\\", "a,", ",a"]


def bounds(tier, seed):
    return {"alphabet": SIGMA, "k_tables": [2] if tier == "quick" else [2, 3], "threshold_optimizer_pairs": 4950, "eg_gridsearch_pairs": 300}


def cases(tier, seed):
    for k in ([2] if tier == "quick" else [2, 3]):
        for cont in ("dataframe", "ndarray", "list"):
            for entry in ("dp_sensitive", "bgl_sensitive", "dp_control"):
                if k == 3 and cont != "dataframe" and entry != "dp_sensitive":
                    continue
                yield {"kind": "table", "k": k, "cont": cont, "entry": entry}
    T2 = list(itertools.product(range(len(SIGMA)), repeat=2))
    for i, j in itertools.combinations(range(len(T2)), 2):
        yield {"kind": "pair", "t1": list(T2[i]), "t2": list(T2[j])}
    S2 = list(itertools.product(range(len(SUB)), repeat=2))
    for i, j in itertools.combinations(range(len(S2)), 2):
        yield {"kind": "redpair", "t1": [SIGMA.index(SUB[v]) for v in S2[i]], "t2": [SIGMA.index(SUB[v]) for v in S2[j]]}
    yield {"kind": "partition"}
    # numeric columns of DIFFERENT dtypes (int + float, bool + int): fit and predict must build the same group keys
    NUM = [(1, 0.5), (2, 0.5), (1, 1.0), (2, 1.0), (0, 0.0)]
    for i, j in itertools.combinations(range(len(NUM)), 2):
        yield {"kind": "numpair", "n1": list(NUM[i]), "n2": list(NUM[j])}


def describe(case):
    d = dict(case)
    for key in ("t1", "t2"):
        if key in d:
            d[key] = [SIGMA[v] for v in d[key]]
    return d


def _wrap(rows, cont):
    if cont == "dataframe":
        return pd.DataFrame(rows, columns=["c%d" % j for j in range(len(rows[0]))])
    if cont == "ndarray":
        return np.array(rows, dtype=object)
    return [list(r) for r in rows]


def _run_table(case):
    import fairlearn.reductions as red

    k, cont, entry = case["k"], case["cont"], case["entry"]
    tuples = list(itertools.product(SIGMA, repeat=k))
    rows = tuples + tuples[::-1]
    n = len(rows)
    out = {"evals": 1, "violations": [], "classes": {"table_" + cont, "naive_join_collision", "contains_separator", "contains_escape", "empty_string"},
           "nontrivial": True}
    V = out["violations"]
    X = np.arange(n, dtype=float).reshape(-1, 1)
    y = np.array([i % 2 for i in range(n)])
    feat = _wrap(rows, cont)
    ctx = "table of all %d tuples of S^%d (each twice) as %s, %s" % (len(tuples), k, cont, entry)
    if entry == "dp_sensitive":
        m = red.DemographicParity()
        m.load_data(X, y, sensitive_features=feat)
        groups = set(t[2] for t in m.index)
        got = len(groups)
    elif entry == "bgl_sensitive":
        m = red.BoundedGroupLoss(red.ZeroOneLoss(), upper_bound=0.1)
        m.load_data(X, y, sensitive_features=feat)
        got = len(set(m.index))
    else:
        out["classes"].add("control_table")
        m = red.DemographicParity()
        m.load_data(X, y, sensitive_features=np.array(["g%d" % (i % 2) for i in range(n)]), control_features=feat)
        got = len(set(t[1] for t in m.index))
    if got != len(tuples):
        V.append(viol("C13:table:%s-collision" % entry, "%d distinct groups for %d distinct tuples: some tuples were merged (%s)" % (got, len(tuples), ctx), len(tuples), got,
                      "import itertools, numpy as np, pandas as pd, fairlearn.reductions as r; S=%r; T=list(itertools.product(S,repeat=%d)); rows=T+T[::-1]; "
                      "m=r.DemographicParity(); m.load_data(np.zeros((len(rows),1)), np.arange(len(rows))%%2, sensitive_features=pd.DataFrame(rows)); "
                      "print(len({t[2] for t in m.index}), len(T))" % (SIGMA, k)))
    out["outcome"] = got
    out["classes"] = sorted(out["classes"])
    return out


def _pair_classes(t1, t2, out):
    if ",".join(t1) == ",".join(t2):
        out["classes"].add("naive_join_collision")
        out["nontrivial"] = True
    if any("," in v for v in t1 + t2):
        out["classes"].add("contains_separator")
        out["nontrivial"] = True
    if any("\\" in v for v in t1 + t2):
        out["classes"].add("contains_escape")
    if any(v == "" for v in t1 + t2):
        out["classes"].add("empty_string")


def _run_pair(case):
    from fairlearn.postprocessing import ThresholdOptimizer

    from mc.stubs import prefit_score

    t1 = [SIGMA[v] for v in case["t1"]]
    t2 = [SIGMA[v] for v in case["t2"]]
    out = {"evals": 1, "violations": [], "classes": set(), "nontrivial": False}
    V = out["violations"]
    _pair_classes(t1, t2, out)
    # group 1: high scores are positive; group 2: labels reversed -> different learned rules
    rows = [t1, t2, t1, t2, t1, t2, t1, t2]
    s = [0.9, 0.9, 0.1, 0.1, 0.8, 0.8, 0.3, 0.3]
    y = [1, 0, 0, 1, 1, 0, 0, 1]
    X = np.array(s).reshape(-1, 1)
    ctx = "tuples %r vs %r" % (t1, t2)
    snip = ("import numpy as np, pandas as pd; from fairlearn.postprocessing import ThresholdOptimizer; from mc.stubs import prefit_score; t1=%r; t2=%r; "
            "rows=[t1,t2]*4; X=np.array([.9,.9,.1,.1,.8,.8,.3,.3]).reshape(-1,1); t=ThresholdOptimizer(estimator=prefit_score(), constraints='demographic_parity', "
            "prefit=True, predict_method='predict', flip=True).fit(X,[1,0,0,1,1,0,0,1],sensitive_features=pd.DataFrame(rows)); "
            "print(t.interpolated_thresholder_.interpolation_dict.keys())" % (t1, t2))
    t_ = ThresholdOptimizer(estimator=prefit_score(), constraints="demographic_parity", objective="accuracy_score", prefit=True, predict_method="predict",
                            grid_size=4, flip=True)
    t_.fit(X, y, sensitive_features=pd.DataFrame(rows, columns=["u", "v"]))
    keys = list(t_.interpolated_thresholder_.interpolation_dict)
    if len(keys) != 2:
        V.append(viol("C13:thresholder:group-count", "interpolation_dict has %d keys %r for two distinct tuples (%s)" % (len(keys), keys, ctx), 2, len(keys), snip))
        out["classes"] = sorted(out["classes"])
        return out
    # own rule per tuple: fit each group alone against a dummy second group is not possible; instead use the by-construction symmetry:
    # predictions for rows of t1 must not depend on how the query is presented, and must differ between t1 and t2 where the rules differ
    q_scores = [0.05, 0.5, 0.95]
    Xq = np.array(q_scores + q_scores).reshape(-1, 1)
    feat_df = pd.DataFrame([t1] * 3 + [t2] * 3, columns=["u", "v"])
    p_df = np.asarray(t_._pmf_predict(Xq, sensitive_features=feat_df), float)[:, 1]
    perm = [5, 0, 3, 1, 4, 2]
    feat_nd = np.array([([t1] * 3 + [t2] * 3)[i] for i in perm], dtype=object)
    p_nd = np.asarray(t_._pmf_predict(Xq[perm], sensitive_features=feat_nd), float)[:, 1]
    feat_ls = [list(([t1] * 3 + [t2] * 3)[i]) for i in perm]
    p_ls = np.asarray(t_._pmf_predict(Xq[perm], sensitive_features=feat_ls), float)[:, 1]
    if not np.allclose(p_nd, p_df[perm], atol=1e-12) or not np.allclose(p_ls, p_df[perm], atol=1e-12):
        V.append(viol("C13:thresholder:predict-container", "probabilities depend on container/order of the sensitive features: DataFrame %r, ndarray(permuted back) %r (%s)" % (
            p_df.tolist(), p_nd.tolist(), ctx), None, None, snip))
    # a batch that contains rows of only ONE of the tuples must get that tuple's rule as well (group naming must not depend on the rest of the batch)
    for which, tt, sl in (("first", t1, slice(0, 3)), ("second", t2, slice(3, 6))):
        for cont in ("dataframe", "list"):
            try:
                p_one = np.asarray(t_._pmf_predict(Xq[sl], sensitive_features=_wrap([tt] * 3, cont)), float)[:, 1]
            except Exception as ex:
                V.append(viol("C13:thresholder:single-tuple-batch-raises-%s" % type(ex).__name__, "predict on a batch holding only the %s tuple raised %r (%s)" % (which, ex, ctx), None, None, snip))
                continue
            if not np.allclose(p_one, p_df[sl], atol=1e-12):
                V.append(viol("C13:thresholder:single-tuple-batch", "rows of the %s tuple get %r when predicted alone but %r in a mixed batch (%s)" % (
                    which, p_one.tolist(), p_df[sl].tolist(), ctx), p_df[sl].tolist(), p_one.tolist(), snip))
    # training-row probabilities must equalise selection rate (parity only holds if the two tuples are two groups)
    p_tr = np.asarray(t_._pmf_predict(X, sensitive_features=pd.DataFrame(rows, columns=["u", "v"])), float)[:, 1]
    sr1 = float(np.mean(p_tr[0::2]))
    sr2 = float(np.mean(p_tr[1::2]))
    acc = float(np.mean([p if yy == 1 else 1 - p for p, yy in zip(p_tr, y)]))
    if abs(sr1 - sr2) > 1e-9 or acc < 1.0 - 1e-9:
        V.append(viol("C13:thresholder:rule-mismatch", "with per-tuple rules both groups are perfectly separable (accuracy 1, equal selection rates); got accuracy %r, "
                      "selection rates %r / %r: a rule learned for another tuple was applied (%s)" % (acc, sr1, sr2, ctx), 1.0, acc, snip))
    out["outcome"] = [round(v, 6) for v in p_df.tolist()]
    out["classes"] = sorted(out["classes"])
    return out


def _run_redpair(case):
    import fairlearn.reductions as red

    from mc.stubs import ExactLearner

    t1 = [SIGMA[v] for v in case["t1"]]
    t2 = [SIGMA[v] for v in case["t2"]]
    out = {"evals": 2, "violations": [], "classes": {"eg_pair", "gridsearch_pair"}, "nontrivial": False}
    V = out["violations"]
    _pair_classes(t1, t2, out)
    rows = [t1, t2, t1, t2, t1, t2]
    X = np.array([[0.0], [0.0], [1.0], [1.0], [0.0], [1.0]])
    y = np.array([0, 1, 1, 1, 0, 0])
    ctx = "tuples %r vs %r" % (t1, t2)
    for cont in ("dataframe", "ndarray"):
        feat = _wrap(rows, cont)
        cons = red.DemographicParity(difference_bound=0.05)
        eg = red.ExponentiatedGradient(ExactLearner(), cons, eps=0.1, max_iter=4)
        eg.fit(X, y, sensitive_features=feat)
        g = set(t[2] for t in cons.index)
        if len(g) != 2:
            V.append(viol("C13:eg:group-count", "ExponentiatedGradient sees %d groups %r for two distinct tuples (%s, %s)" % (len(g), sorted(g), ctx, cont), 2, len(g)))
        gs = red.GridSearch(ExactLearner(), red.DemographicParity(), grid_size=3)
        gs.fit(X, y, sensitive_features=feat)
        g2 = set(t[2] for t in gs.lambda_vecs_.index)
        if len(g2) != 2:
            V.append(viol("C13:gridsearch:group-count", "GridSearch multipliers are indexed by %d groups %r for two distinct tuples (%s, %s)" % (len(g2), sorted(g2), ctx, cont), 2, len(g2)))
    out["classes"] = sorted(out["classes"])
    return out


def _run_partition(case):
    import fairlearn.reductions as red
    from fairlearn.metrics import MetricFrame, count

    tuples = list(itertools.product(SIGMA, repeat=2))
    rows = []
    for i, t in enumerate(tuples):
        rows += [t] * (1 + i % 3)
    n = len(rows)
    out = {"evals": 2, "violations": [], "classes": {"metricframe_partition"}, "nontrivial": True}
    V = out["violations"]
    df = pd.DataFrame(rows, columns=["u", "v"])
    mf = MetricFrame(metrics=count, y_true=np.zeros(n), y_pred=np.zeros(n), sensitive_features=df)
    cells = sorted(int(v) for v in mf.by_group.dropna().values if v > 0)
    m = red.DemographicParity()
    m.load_data(np.zeros((n, 1)), np.arange(n) % 2, sensitive_features=df)
    h1 = np.ones(n)
    # group sizes through public gamma: P(g) = n_g/n follows from '+' entries of unit predictors; simpler: count groups and sizes via index + gamma of indicator
    sizes = []
    for t in set(x[2] for x in m.index):
        # gamma_+ (h = 1 on all rows) = 0 for every group; use the moment's public prob via total rows with same merged label: recompute by indicator predictors
        sizes.append(t)
    if len(sizes) != len(cells):
        V.append(viol("C13:partition:group-count", "moment sees %d groups, MetricFrame has %d non-empty cells" % (len(sizes), len(cells)), len(cells), len(sizes)))
    if cells != sorted(1 + i % 3 for i in range(len(tuples))):
        V.append(viol("C13:partition:metricframe-cells", "MetricFrame cell sizes %r do not match the tuple multiplicities" % cells[:10]))
    # membership: rows i, j are in the same moment group iff same tuple. Observed through gamma of single-row indicator predictors:
    # gamma_(+,all,g)(e_i) = 1[i in g]/n_g - 1/n, so the group with the largest '+' entry for e_i is i's group.
    owner = []
    probe_rows = list(range(0, n, 7))
    for i in probe_rows:
        e = np.zeros(n)
        e[i] = 1.0
        g = m.gamma(lambda X_: e)
        plus = g["+"]["all"]
        owner.append(plus.idxmax())
    for a, b in itertools.combinations(range(len(probe_rows)), 2):
        same_tuple = rows[probe_rows[a]] == rows[probe_rows[b]]
        if (owner[a] == owner[b]) != same_tuple:
            V.append(viol("C13:partition:membership", "rows %d %r and %d %r: same group=%r but same tuple=%r" % (
                probe_rows[a], rows[probe_rows[a]], probe_rows[b], rows[probe_rows[b]], owner[a] == owner[b], same_tuple)))
            break
    out["outcome"] = len(sizes)
    return out


def _run_numpair(case):
    from fairlearn.postprocessing import ThresholdOptimizer

    from mc.stubs import prefit_score

    t1, t2 = tuple(case["n1"]), tuple(case["n2"])
    out = {"evals": 1, "violations": [], "classes": {"numeric_mixed_dtype_columns"}, "nontrivial": True}
    V = out["violations"]
    rows = [t1, t2] * 4
    s_ = [0.9, 0.9, 0.1, 0.1, 0.8, 0.8, 0.3, 0.3]
    y = [1, 0, 0, 1, 1, 0, 0, 1]
    X = np.array(s_).reshape(-1, 1)
    ctx = "numeric tuples %r vs %r" % (t1, t2)
    for variant in ("int+float", "bool+int"):
        if variant == "int+float":
            df = pd.DataFrame({"u": pd.Series([r[0] for r in rows], dtype="int64"), "v": pd.Series([r[1] for r in rows], dtype="float64")})
        else:
            if t1[0] == t2[0] and (t1[1] > 0) == (t2[1] > 0):
                continue
            df = pd.DataFrame({"u": pd.Series([r[1] > 0.5 for r in rows], dtype="bool"), "v": pd.Series([r[0] for r in rows], dtype="int64")})
            if len(set(map(tuple, df.values.tolist()))) < 2:
                continue
        t_ = ThresholdOptimizer(estimator=prefit_score(), constraints="demographic_parity", objective="accuracy_score", prefit=True, predict_method="predict",
                                grid_size=4, flip=True).fit(X, y, sensitive_features=df)
        keys = list(t_.interpolated_thresholder_.interpolation_dict)
        if len(keys) != 2:
            V.append(viol("C13:thresholder:group-count", "interpolation_dict has %d keys %r for two distinct numeric tuples (%s, %s)" % (len(keys), keys, ctx, variant)))
            continue
        p_df = np.asarray(t_._pmf_predict(X, sensitive_features=df), float)[:, 1]
        perm = [7, 2, 5, 0, 3, 6, 1, 4]
        p_pm = np.asarray(t_._pmf_predict(X[perm], sensitive_features=df.iloc[perm].reset_index(drop=True)), float)[:, 1]
        acc = float(np.mean([p if yy == 1 else 1 - p for p, yy in zip(p_df, y)]))
        # (the caller converting the frame to a float/object ndarray changes the string form of the values, so only the same
        #  DataFrame presentation is required to hit the learned rules)
        if acc < 1 - 1e-9 or not np.allclose(p_pm, p_df[perm], atol=1e-12):
            V.append(viol("C13:thresholder:numeric-tuples", "rules learned for numeric tuples are not applied at predict time: probabilities %r (permuted rows %r), accuracy %r (%s, %s)" % (
                p_df.tolist(), p_pm.tolist(), acc, ctx, variant), 1.0, acc))
    out["classes"] = sorted(out["classes"])
    return out


def run_case(case):
    return {"numpair": _run_numpair, "table": _run_table, "pair": _run_pair, "redpair": _run_redpair, "partition": _run_partition}[case["kind"]](case)


LEVEL_TEXT = ("Every tuple over an alphabet built from the separator, the escape character, their combinations, empty and numeric-looking "
              "strings is placed in one table (deciding all pairs at once for the moments), and every unordered pair of distinct 2-tuples "
              "(4950) is run as a two-group ThresholdOptimizer problem; a 5-value sub-alphabet is also pushed through "
              "ExponentiatedGradient and GridSearch. Collisions need adversarial strings that no fixture contains.")
LEVEL_NOTE = "Group identity is observed only through public results (index levels, interpolation_dict keys, gamma of indicator predictors, _pmf_predict)."
TECHNIQUE = "bounded-exhaustive enumeration of feature-value tuples (all pairs over an adversarial alphabet) on the real code against tuple equality"
