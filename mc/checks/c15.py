"""C15 - CorrelationRemover output is uncorrelated with every sensitive column."""
import itertools

import numpy as np
import pandas as pd

from mc.engine import viol

PROPERTY = "C15"
LEVEL = "exploration"
CHUNK = 64
RULE = ("all matrices over the integer palette with n rows, s sensitive and o other columns (all 3^(n(s+o)) of them while <= 60k, "
        "otherwise the binary palette; quick: limit 7k) x sensitive positions {first, last, interleaved, middle} x alpha in {1,0,1/2,0.3} x input as float ndarray "
        "(by position), integer-dtype ndarray / DataFrame and DataFrame (by name, shuffled index) x transform on a second matrix derived from the case; reference: "
        "centre each sensitive column by ITS OWN mean, projection via numpy.linalg.pinv; oracle: (a) alpha=1 => zero sample "
        "covariance with every sensitive column, (b) output = alpha*residual + (1-alpha)*original, (c) sensitive columns dropped, "
        "others in order, (d) transform(X2) applies the training means/coefficients, (e) DataFrame-by-name == ndarray-by-position. "
        "non-trivial = some sensitive column is non-constant and some other column is correlated with it; distinct = distinct matrices")
ASSUMPTIONS = ["entries from a small integer palette (selected by VERIF_SEED); n<=4", "pinv-based projection is the reference least-squares solution"]
CLASSES = ["sensitive_columns_of_different_scale", "integer_dtype_input", "constant_sensitive_column", "collinear_sensitive_columns", "two_or_more_sensitive", "dataframe_by_name", "alpha_fraction",
           "transform_new_data"]
PALETTES = [(0, 1, 2), (0, 1, 3), (-1, 0, 2), (1, 2, 4)]
ALPHAS = [1.0, 0.0, 0.5, 0.3]


def _shapes(tier):
    if tier == "quick":
        return [(2, 1, 1), (2, 2, 1), (3, 1, 1), (3, 1, 2), (3, 2, 1), (2, 3, 1), (2, 1, 2)]
    return [(2, 1, 1), (2, 2, 1), (2, 3, 1), (2, 1, 2), (2, 2, 2), (2, 4, 1), (3, 1, 1), (3, 1, 2), (3, 2, 1), (3, 2, 2), (3, 3, 1),
            (3, 4, 1), (4, 1, 1), (4, 1, 2), (4, 2, 1), (4, 3, 1), (4, 2, 2)]


def bounds(tier, seed):
    return {"shapes(n,s,o)": _shapes(tier), "palette": list(PALETTES[seed % 4]), "alphas": ALPHAS, "full_palette_limit": 7000 if tier == "quick" else 60000}


def cases(tier, seed):
    for (n, s, o) in _shapes(tier):
        cells = n * (s + o)
        base = 3 if 3 ** cells <= (7000 if tier == "quick" else 60000) else 2
        for idx in range(base ** cells):
            yield {"n": n, "s": s, "o": o, "base": base, "idx": idx, "seed": seed}


def matrix(case):
    pal = PALETTES[case["seed"] % 4]
    n, k, base, idx = case["n"], case["s"] + case["o"], case["base"], case["idx"]
    vals = []
    for _ in range(n * k):
        vals.append(pal[idx % base])
        idx //= base
    return np.array(vals, float).reshape(n, k)


def describe(case):
    return {"matrix(sensitive columns first)": matrix(case).tolist(), "s": case["s"], "o": case["o"]}


def ref_transform(S_train, O_train, S_new, O_new, alpha):
    mean = S_train.mean(axis=0)
    Sc = S_train - mean
    beta = np.linalg.pinv(Sc) @ O_train
    res = O_new - (S_new - mean) @ beta
    return alpha * res + (1 - alpha) * O_new


def run_case(case):
    from fairlearn.preprocessing import CorrelationRemover

    M = matrix(case)
    n, s, o = case["n"], case["s"], case["o"]
    S, O = M[:, :s], M[:, s:]
    out = {"evals": 0, "violations": [], "classes": set()}
    V = out["violations"]
    Sc = S - S.mean(axis=0)
    if (np.abs(Sc).sum(axis=0) == 0).any():
        out["classes"].add("constant_sensitive_column")
    if s >= 2:
        out["classes"].add("two_or_more_sensitive")
        if np.linalg.matrix_rank(Sc) < min(s, n - 1) or np.linalg.matrix_rank(Sc) < s:
            out["classes"].add("collinear_sensitive_columns")
    out["nontrivial"] = bool(np.abs(Sc.T @ (O - O.mean(axis=0))).max() > 0)
    # second matrix for transform: rows reversed and shifted (deterministic function of the case)
    M2 = M[::-1] * 2.0 + 1.0
    S2, O2 = M2[:, :s], M2[:, s:]
    k = s + o
    layouts = {"first": list(range(s)), "last": list(range(o, k)), "interleaved": [min(k - 1, 2 * j) for j in range(s)] if 2 * (s - 1) < k else None,
               "middle": list(range(1, s + 1)) if o >= 2 else None}  # other columns on both sides of the sensitive block
    outcome = None
    for lname, spos in layouts.items():
        if spos is None or len(set(spos)) < s:
            continue
        opos = [j for j in range(k) if j not in spos]
        X = np.zeros((n, k))
        X2 = np.zeros((n, k))
        X[:, spos], X[:, opos] = S, O
        X2[:, spos], X2[:, opos] = S2, O2
        for alpha in (ALPHAS if case["base"] == 3 or case["n"] * (case["s"] + case["o"]) <= 12 else (1.0, 0.3)):
            if alpha not in (1.0, 0.0):
                out["classes"].add("alpha_fraction")
            ctx = "X=%r sensitive_feature_ids=%r alpha=%r" % (X.tolist(), spos, alpha)
            snip = ("import numpy as np; from fairlearn.preprocessing import CorrelationRemover; X=np.array(%r); "
                    "Z=CorrelationRemover(sensitive_feature_ids=%r, alpha=%r).fit_transform(X); S=X[:,%r]; print(Z, (S-S.mean(0)).T@(Z-Z.mean(0)))" % (X.tolist(), spos, alpha, spos))
            out["evals"] += 2
            cr = CorrelationRemover(sensitive_feature_ids=spos, alpha=alpha)
            try:
                Z = np.asarray(cr.fit_transform(X), float)
                Z2 = np.asarray(cr.transform(X2), float)
            except Exception as e:
                V.append(viol("C15:raises-%s" % type(e).__name__, "fit_transform/transform raised %r (%s)" % (e, ctx), None, repr(e), snip))
                continue
            exp = ref_transform(S, O, S, O, alpha)
            exp2 = ref_transform(S, O, S2, O2, alpha)
            scale = max(1.0, float(np.abs(M).max()) ** 2) * n
            if Z.shape != (n, o):
                V.append(viol("C15:shape", "output shape %r, expected %r: sensitive columns must be dropped (%s)" % (Z.shape, (n, o), ctx), None, None, snip))
                continue
            if alpha == 1.0:
                cov = Sc.T @ (Z - Z.mean(axis=0))
                if np.abs(cov).max() > 1e-9 * scale:
                    V.append(viol("C15:covariance-nonzero", "alpha=1 output has covariance %r with the sensitive columns (%s)" % (np.round(cov, 6).tolist(), ctx),
                                  0.0, np.round(cov, 9).tolist(), snip))
            if not np.allclose(Z, exp, rtol=0, atol=1e-9 * scale):
                V.append(viol("C15:fit_transform-value", "fit_transform gives %r, reference alpha*residual+(1-alpha)*original is %r (%s)" % (
                    np.round(Z, 6).tolist(), np.round(exp, 6).tolist(), ctx), exp.tolist(), Z.tolist(), snip))
            out["classes"].add("transform_new_data")
            if Z2.shape != (n, o) or not np.allclose(Z2, exp2, rtol=0, atol=1e-9 * scale * 4):
                V.append(viol("C15:transform-new-data", "transform(X2) gives %r, the training affine map gives %r (X2=%r, %s)" % (
                    np.round(Z2, 6).tolist(), np.round(exp2, 6).tolist(), X2.tolist(), ctx), exp2.tolist(), Z2.tolist(), snip))
            if lname == "first" and alpha == 1.0:
                outcome = np.round(Z, 9).tolist()
            # sensitive columns of wildly different scale: the projection (hence the output) does not depend on the scale of a sensitive column
            if s >= 2 and alpha == 1.0 and lname in ("first", "middle"):
                out["classes"].add("sensitive_columns_of_different_scale")
                out["evals"] += 1
                Xs = X.copy()
                Xs[:, spos[0]] *= 2.0 ** 24
                try:
                    Zs = np.asarray(CorrelationRemover(sensitive_feature_ids=spos, alpha=1.0).fit_transform(Xs), float)
                    if not np.allclose(Zs, exp, rtol=0, atol=1e-6 * scale):
                        V.append(viol("C15:scaled-sensitive-column", "with sensitive column %d multiplied by 2^24 the output is %r, expected the unchanged residual %r (%s)" % (
                            spos[0], np.round(Zs, 6).tolist(), np.round(exp, 6).tolist(), ctx), exp.tolist(), Zs.tolist()))
                except Exception as e:
                    V.append(viol("C15:scaled-raises-%s" % type(e).__name__, "scaled sensitive column raised %r (%s)" % (e, ctx)))
            # integer-dtype input (ndarray and DataFrame) must give the same result as the same numbers as floats
            if alpha in (1.0, 0.5) and float(np.abs(X - np.round(X)).max()) == 0.0:
                out["classes"].add("integer_dtype_input")
                out["evals"] += 2
                try:
                    Xi = X.astype(np.int64)
                    cri = CorrelationRemover(sensitive_feature_ids=spos, alpha=alpha)
                    Zi = np.asarray(cri.fit_transform(Xi), float)
                    Zi2 = np.asarray(cri.transform((X2).astype(np.int64)), float)
                    Zdi = np.asarray(CorrelationRemover(sensitive_feature_ids=["c%d" % j for j in spos], alpha=alpha).fit_transform(
                        pd.DataFrame(Xi, columns=["c%d" % j for j in range(k)])), float)
                    if not np.allclose(Zi, exp, rtol=0, atol=1e-9 * scale) or not np.allclose(Zdi, exp, rtol=0, atol=1e-9 * scale) \
                            or not np.allclose(Zi2, exp2, rtol=0, atol=4e-9 * scale):
                        V.append(viol("C15:integer-dtype-differs", "integer-dtype input gives %r (DataFrame %r), the same numbers as floats give %r (%s)" % (
                            np.round(Zi, 6).tolist(), np.round(Zdi, 6).tolist(), np.round(exp, 6).tolist(), ctx), exp.tolist(), Zi.tolist(),
                            snip.replace("X=np.array(%r)" % (X.tolist(),), "X=np.array(%r).astype(int)" % (X.tolist(),))))
                except Exception as e:
                    V.append(viol("C15:integer-dtype-raises-%s" % type(e).__name__, "integer-dtype input raised %r (%s)" % (e, ctx)))
            # DataFrame by name, shuffled index, must equal ndarray by position
            if alpha in (1.0, 0.3):
                out["classes"].add("dataframe_by_name")
                names = ["c%d" % j for j in range(k)]
                df = pd.DataFrame(X, columns=names, index=[(7 * i + 3) % 11 for i in range(n)])
                out["evals"] += 1
                try:
                    Zd = np.asarray(CorrelationRemover(sensitive_feature_ids=[names[j] for j in spos], alpha=alpha).fit_transform(df), float)
                except Exception as e:
                    V.append(viol("C15:dataframe-raises-%s" % type(e).__name__, "DataFrame input raised %r (%s)" % (e, ctx)))
                    continue
                if Zd.shape != Z.shape or not np.allclose(Zd, Z, rtol=0, atol=1e-12):
                    V.append(viol("C15:dataframe-differs", "DataFrame-by-name result %r differs from ndarray-by-position %r (%s)" % (Zd.tolist(), Z.tolist(), ctx)))
    out["outcome"] = outcome
    out["classes"] = sorted(out["classes"])
    return out


LEVEL_TEXT = ("Every small integer matrix (all of them below the size limit) with 1-4 sensitive and 1-2 other columns, in three column "
              "layouts, four alphas, ndarray and DataFrame form, is pushed through the real fit_transform/transform and compared with a "
              "pinv-based reference; the zero-covariance consequence is asserted directly. Constant and collinear sensitive columns and "
              "the multi-column centring are exactly what a handful of fixtures with one sensitive column cannot reach.")
LEVEL_NOTE = "Trusts numpy.linalg.pinv as the reference least-squares projection; tolerances 1e-9 relative to the data scale."
TECHNIQUE = "bounded-exhaustive enumeration of input matrices x configurations against a reference model"
