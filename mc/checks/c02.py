"""C02 - MetricFrame aggregates are the documented functions of by_group / overall."""
import itertools
import math

import numpy as np
import pandas as pd

from mc.engine import close, viol
from mc.ref.metrics import as_tuple, div, fmax, fmin, ref_aggregates, wrate

PROPERTY = "C02"
LEVEL = "exploration"
CHUNK = 8
RULE = ("tables, not datasets: a lookup metric returns a prescribed value for each row set, so every by_group/overall "
        "table over the value palette is reached through the real MetricFrame: G=1..3(4) groups x independent overall; "
        "an empty combination via a second sensitive feature; one control feature with two strata carrying independent "
        "tables; two control features with empty strata; x method x errors x callable/dict. Plus real mean-type metrics "
        "(selection rate, accuracy, mean prediction; weighted and not) on every sorted dataset up to n rows for the "
        "to_overall<=between_groups inequality. non-trivial = table not constant; distinct = distinct table descriptors")
ASSUMPTIONS = ["table entries are drawn from a dyadic palette (selected by VERIF_SEED); non-scalar metric cells are not explored",
               "for sign-mixed tables the to_overall ratio of the implementation follows '1/r if r>1 else r' (known finding F12)"]
CLASSES = ["integer_valued_metric", "second_metric_with_nan", "zero_denominator", "all_equal", "nan_group", "control_strata", "empty_stratum", "negative_values_thorough",
           "mean_metric_dataset"]

PALETTES = [(0.0, 0.5, 1.0, 2.0), (0.0, 0.25, 1.0, 4.0), (0.0, 1.0, 3.0, 0.5), (0.0, 0.75, 1.0, 1.5)]
NEG = (-1.0, -0.5)


def classes_required(tier):
    return list(CLASSES)


def bounds(tier, seed):
    return {"palette": list(PALETTES[seed % 4]) + list(NEG), "sign_mixed_tables": "G<=2 (quick), all plain/empty tables (thorough)",
            "G_plain": [1, 2, 3] + ([4] if tier != "quick" else []),
            "control_groups_per_stratum": 2 if tier == "quick" else 3,
            "mean_metric_n_max": 3 if tier == "quick" else 4}


def cases(tier, seed):
    A = list(PALETTES[seed % 4])
    A2 = A + (list(NEG) if tier != "quick" else [])
    for G in (1, 2, 3):
        for v in itertools.product(A2 if (tier != "quick" or G == 3) else A + list(NEG), repeat=G + 1):
            if G == 1 and v[0] != v[1]:
                continue
            yield {"mode": "plain", "gv": list(v[:-1]), "ov": v[-1]}
    if tier != "quick":
        for v in itertools.product(A, repeat=5):
            yield {"mode": "plain", "gv": list(v[:-1]), "ov": v[-1]}
    for v in itertools.product(A2, repeat=3):
        yield {"mode": "empty", "gv": list(v[:2]), "ov": v[2]}
    S = (0.0, 1.0, 2.0)
    Gs = 2 if tier == "quick" else 3
    per = list(itertools.product(S, repeat=Gs + 1))
    for a in per:
        for b in per:
            yield {"mode": "control1", "strata": [{"gv": list(a[:-1]), "ov": a[-1]}, {"gv": list(b[:-1]), "ov": b[-1]}]}
    per2 = list(itertools.product(S, repeat=3))
    for a in per2:
        for b in per2:
            yield {"mode": "control2", "strata": [{"gv": list(a[:-1]), "ov": a[-1]}, {"gv": list(b[:-1]), "ov": b[-1]}]}
    # real mean-type metrics
    rowtypes = [(y, p, g) for g in "abc" for y in (0, 1) for p in (0, 1)]
    nmax = 3 if tier == "quick" else 4
    for n in range(1, nmax + 1):
        for ms in itertools.combinations_with_replacement(range(len(rowtypes)), n):
            yield {"mode": "mean", "rows": [list(rowtypes[i]) for i in ms], "seed": seed}


def _mk_lookup(table):
    def lookup_metric(y_true, y_pred):
        return table[frozenset(int(i) for i in y_true)]
    return lookup_metric


def _get(res, form):
    return res if form == "callable" else res["m"]


def _compare(V, tag, obs, R, ctx, table_has_neg_r, nonneg=True):
    for k in ("min", "max", "diff_b", "diff_o", "ratio_b", "ratio_o"):
        o = float(obs[k])
        if close(o, R[k], 1e-12):
            continue
        if k == "ratio_o" and table_has_neg_r and close(o, R["ratio_o_alt"], 1e-12):
            V.append(viol("C02:ratio_to_overall:r-in-(-1,0)", "ratio(to_overall)=%r, statement gives %r (%s)" % (o, R[k], ctx),
                          R[k], o))
        else:
            V.append(viol("C02:%s:value" % k, "%s %s = %r expected %r (%s)" % (tag, k, o, R[k], ctx), R[k], o))
    # inequalities of the statement, evaluated on the observed values
    o = {k: float(v) for k, v in obs.items()}
    if o["diff_b"] < 0 or o["diff_o"] < 0:
        V.append(viol("C02:difference:negative", "negative difference %r (%s)" % (o, ctx)))
    if nonneg and (o["ratio_b"] > 1 + 1e-12 or o["ratio_o"] > 1 + 1e-12 or o["ratio_b"] < 0 or o["ratio_o"] < 0):
        V.append(viol("C02:ratio:outside-[0,1]", "ratio outside [0,1] on a non-negative table: %r (%s)" % (o, ctx)))
    if not math.isnan(o["diff_b"]) and not math.isnan(o["diff_o"]) and o["diff_b"] > 2 * o["diff_o"] + 1e-12:
        V.append(viol("C02:difference:between>2*to_overall", "%r (%s)" % (o, ctx)))


def _observe(mf, form, err):
    return {"min": _get(mf.group_min(errors=err), form), "max": _get(mf.group_max(errors=err), form),
            "diff_b": _get(mf.difference(method="between_groups", errors=err), form),
            "diff_o": _get(mf.difference(method="to_overall", errors=err), form),
            "ratio_b": _get(mf.ratio(method="between_groups", errors=err), form),
            "ratio_o": _get(mf.ratio(method="to_overall", errors=err), form)}


def _neg_r(gv, ov):
    for v in gv:
        r = div(v, ov)
        if not math.isnan(r) and -1 < r < 0:
            return True
    return False


def run_case(case):
    from fairlearn.metrics import MetricFrame

    out = {"evals": 0, "violations": [], "classes": set()}
    V = out["violations"]
    mode = case["mode"]
    if mode == "mean":
        return _run_mean(case)
    if mode in ("plain", "empty"):
        gv, ov = case["gv"], case["ov"]
        G = len(gv)
        ids = np.arange(G)
        table = {frozenset([i]): gv[i] for i in range(G)}
        table[frozenset(range(G))] = ov
        if G == 1:
            table[frozenset([0])] = ov
        if mode == "plain":
            sfeat = ["abcd"[i] for i in range(G)]
            groups = list(gv)
        else:
            sfeat = {"s1": ["a", "b"], "s2": ["x", "y"]}
            groups = list(gv) + [float("nan"), float("nan")]
            out["classes"].add("nan_group")
        if ov == 0 or 0 in gv:
            out["classes"].add("zero_denominator")
        if len(set(gv)) == 1 and G > 1:
            out["classes"].add("all_equal")
        if min(list(gv) + [ov]) < 0:
            out["classes"].add("negative_values_thorough")
        out["nontrivial"] = len(set(gv) | {ov}) > 1
        R = ref_aggregates(groups, ov)
        neg = _neg_r(gv, ov)
        outcome = []
        for form in ("callable", "dict"):
            fn = _mk_lookup(table)
            out["evals"] += 1
            mf = MetricFrame(metrics=fn if form == "callable" else {"m": fn}, y_true=ids, y_pred=ids, sensitive_features=sfeat)
            per_err = {}
            for err in ("raise", "coerce"):
                obs = _observe(mf, form, err)
                per_err[err] = obs
                _compare(V, "%s/%s" % (form, err), obs, R, "groups=%r overall=%r mode=%s" % (gv, ov, mode), neg,
                         nonneg=min(list(gv) + [ov]) >= 0)
            for k in per_err["raise"]:
                if not close(per_err["raise"][k], per_err["coerce"][k], 0):
                    V.append(viol("C02:errors:raise!=coerce", "%s: raise=%r coerce=%r groups=%r overall=%r" % (
                        k, per_err["raise"][k], per_err["coerce"][k], gv, ov)))
            outcome.append([None if math.isnan(float(v)) else float(v) for v in per_err["raise"].values()])
        # integer-valued metric (Python ints in every cell, e.g. a count): the aggregates must be the same numbers
        if mode == "plain" and all(float(v).is_integer() for v in list(gv) + [ov]):
            out["classes"].add("integer_valued_metric")
            ti = {k: int(v) for k, v in table.items()}
            for form in ("callable", "dict"):
                out["evals"] += 1
                mf = MetricFrame(metrics=_mk_lookup(ti) if form == "callable" else {"m": _mk_lookup(ti)}, y_true=ids, y_pred=ids, sensitive_features=sfeat)
                for err in ("raise", "coerce"):
                    obs = _observe(mf, form, err)
                    _compare(V, "int-%s/%s" % (form, err), obs, R, "INTEGER cells groups=%r overall=%r" % (gv, ov), neg, nonneg=min(list(gv) + [ov]) >= 0)
        # two metrics in one frame: a NaN cell of metric 'n' on a NON-empty group must not influence the aggregates of metric 'm'
        if mode == "plain" and G >= 2:
            out["classes"].add("second_metric_with_nan")
            for nan_at in range(G):
                t2 = {frozenset([i]): (float("nan") if i == nan_at else float(i + 1)) for i in range(G)}
                t2[frozenset(range(G))] = 1.0
                out["evals"] += 1
                mf = MetricFrame(metrics={"m": _mk_lookup(table), "n": _mk_lookup(t2)}, y_true=ids, y_pred=ids, sensitive_features=sfeat)
                for err in ("raise", "coerce"):
                    obs = _observe(mf, "dict", err)
                    _compare(V, "dict2/%s/nan@%d" % (err, nan_at), obs, R, "groups=%r overall=%r, second metric NaN on group %d" % (gv, ov, nan_at), neg,
                             nonneg=min(list(gv) + [ov]) >= 0)
        out["outcome"] = outcome
    else:
        strata = case["strata"]
        Gs = len(strata[0]["gv"])
        out["classes"].add("control_strata")
        table = {}
        sf, cf1, cf2 = [], [], []
        rid = 0
        stratum_rows = []
        for si, st in enumerate(strata):
            rows = []
            for gi in range(Gs):
                table[frozenset([rid])] = st["gv"][gi]
                sf.append("abc"[gi])
                cf1.append("uv"[si])
                cf2.append("pq"[si])
                rows.append(rid)
                rid += 1
            table[frozenset(rows)] = st["ov"] if Gs > 1 else st["gv"][0]
            stratum_rows.append(rows)
        n = rid
        ids = np.arange(n)
        if mode == "control1":
            cfeat = {"c1": cf1}
            keys = [("u",), ("v",)]
        else:
            cfeat = {"c1": cf1, "c2": cf2}
            keys = [("u", "p"), ("v", "q")]
            out["classes"].add("empty_stratum")
        out["nontrivial"] = True
        refs = [ref_aggregates(st["gv"], st["ov"]) for st in strata]
        if any(st["ov"] == 0 or 0 in st["gv"] for st in strata):
            out["classes"].add("zero_denominator")
        outcome = []
        for form in ("callable", "dict"):
            fn = _mk_lookup(table)
            out["evals"] += 1
            mf = MetricFrame(metrics=fn if form == "callable" else {"m": fn}, y_true=ids, y_pred=ids,
                             sensitive_features={"s": sf}, control_features=cfeat)
            per_err = {}
            for err in ("raise", "coerce"):
                obs = _observe(mf, form, err)
                per_err[err] = obs
                for si, key in enumerate(keys):
                    o = {}
                    bad = False
                    for k, ser in obs.items():
                        idx = [as_tuple(t) for t in ser.index]
                        if key not in idx:
                            V.append(viol("C02:control:missing-stratum", "%s lacks stratum %r (index %r)" % (k, key, idx)))
                            bad = True
                            break
                        o[k] = ser[key if len(key) > 1 else key[0]]
                    if bad:
                        continue
                    _compare(V, "%s/%s/%r" % (form, err, key), o, refs[si], "strata=%r mode=%s stratum=%r" % (strata, mode, key), False)
                # empty strata (two control features): NaN if reported
                for k, ser in obs.items():
                    for t in ser.index:
                        if as_tuple(t) not in keys and not math.isnan(float(ser[t])):
                            V.append(viol("C02:control:empty-stratum-not-nan", "%s[%r]=%r for a stratum without rows" % (k, t, ser[t])))
            for k in per_err["raise"]:
                a, b = per_err["raise"][k], per_err["coerce"][k]
                if not (list(a.index) == list(b.index) and all(close(x, y, 0) for x, y in zip(a.values, b.values))):
                    V.append(viol("C02:errors:raise!=coerce", "%s differs between errors=raise and coerce, strata=%r" % (k, strata)))
            outcome.append([[None if math.isnan(float(x)) else float(x) for x in v.values] for v in per_err["raise"].values()])
        out["outcome"] = outcome
    out["classes"] = sorted(out["classes"])
    return out


WPAL = [(1, 2), (1, 3), (2, 5), (0.5, 1.5)]


def _run_mean(case):
    import sklearn.metrics as skm

    from fairlearn.metrics import MetricFrame, mean_prediction, selection_rate

    rows = case["rows"]
    n = len(rows)
    y = [r[0] for r in rows]
    p = [r[1] for r in rows]
    g = [r[2] for r in rows]
    pal = WPAL[case["seed"] % 4]
    out = {"evals": 0, "violations": [], "classes": ["mean_metric_dataset"], "nontrivial": len(set(g)) > 1}
    V = out["violations"]
    pr = [0.25 + 0.5 * pi + 0.125 * i for i, pi in enumerate(p)]
    wlist = [None] + [list(w) for w in itertools.product(pal, repeat=n) if len(set(w)) > 1]
    outcome = []
    for w in wlist:
        sp = {} if w is None else {"sample_weight": w}
        metrics = {"sr": selection_rate, "acc": skm.accuracy_score}
        out["evals"] += 1
        mf = MetricFrame(metrics=metrics, y_true=y, y_pred=p, sensitive_features=g,
                         sample_params={k: sp for k in metrics} if sp else None)
        mf2 = MetricFrame(metrics={"mp": mean_prediction}, y_true=y, y_pred=pr, sensitive_features=g,
                          sample_params={"mp": sp} if sp else None)
        for m, name in ((mf, "sr"), (mf, "acc"), (mf2, "mp")):
            db = float(m.difference(method="between_groups")[name])
            do = float(m.difference(method="to_overall")[name])
            rb = float(m.ratio(method="between_groups")[name])
            ro = float(m.ratio(method="to_overall")[name])
            if do > db + 1e-12:
                V.append(viol("C02:mean-metric:to_overall>between", "%s: to_overall %r > between_groups %r rows=%r w=%r" % (name, do, db, rows, w), None, [do, db]))
            if db < 0 or do < 0 or rb > 1 + 1e-12 or ro > 1 + 1e-12 or rb < 0 or ro < 0:
                V.append(viol("C02:mean-metric:range", "%s: diff/ratio out of range %r rows=%r w=%r" % (name, [db, do, rb, ro], rows, w)))
            # reference values from first principles
            ww = w or [1.0] * n
            labels = sorted(set(g))

            def val(idx):
                yy = [y[i] for i in idx]
                pp = [p[i] for i in idx]
                w_ = [ww[i] for i in idx]
                if name == "sr":
                    return wrate("selection_rate", yy, pp, w_)
                if name == "acc":
                    return wrate("accuracy_score", yy, pp, w_)
                return sum(pr[i] * ww[i] for i in idx) / sum(w_)
            gvals = [val([i for i in range(n) if g[i] == lab]) for lab in labels]
            R = ref_aggregates(gvals, val(range(n)))
            for k, o in (("diff_b", db), ("diff_o", do), ("ratio_b", rb), ("ratio_o", ro)):
                if not close(o, R[k]):
                    V.append(viol("C02:mean-metric:%s" % k, "%s %s=%r expected %r rows=%r w=%r" % (name, k, o, R[k], rows, w), R[k], o))
            if w is None:
                outcome.append([db, do])
    out["outcome"] = outcome
    return out


def describe(case):
    return case


LEVEL_TEXT = ("Every by_group/overall table over a 4-6 value palette with 1-4 groups, with empty combinations, and with two "
              "control strata carrying independent tables, is produced through the real MetricFrame by a lookup metric and all "
              "six aggregates x 2 error modes x callable/dict are compared with a transcription of the statement (IEEE semantics "
              "for zero denominators); the inequalities are evaluated on every table and, for mean-type metrics, on every small "
              "dataset. Exhaustive table enumeration is the right level: the aggregate code is a pure function of the table.")
LEVEL_NOTE = "Trusts the reference transcription of the statement; palette values are dyadic; sign-mixed tables only in thorough."
TECHNIQUE = "bounded-exhaustive enumeration of result tables (via a lookup metric through the real API) against a reference model"
