"""C03 - named fairness metrics equal their first-principles definitions."""
import functools
import itertools
import math

import numpy as np

from mc.engine import close, viol
from mc.ref.metrics import ref_aggregates, wrate

PROPERTY = "C03"
LEVEL = "exploration"
CHUNK = 2
RULE = ("all sorted sequences (multisets) of rows (y, y_pred, group) with y,y_pred in {0,1}, group in the first G letters, "
        "n up to the bound; weights: none, plus weight vectors over the palette (all vectors for small n, fixed patterns "
        "otherwise); every named fairness function x method x agg and every generated <rate>_{difference,ratio}, "
        "accuracy/zero-one variants, (thorough) sklearn-based group_min/group_max, and two make_derived_metric products; "
        "reference = weighted counts per group by loops + the C02 aggregate reference; row order is covered by C12. "
        "non-trivial = at least two groups; distinct = distinct multisets")
ASSUMPTIONS = ["roc_auc/log_loss/r2 variants excluded (undefined on single-class or single-row groups)",
               "row order is not enumerated here (C12 proves order invariance on the same alphabet)"]
CLASSES = ["single_member_group", "empty_denominator", "one_group", "weighted", "four_groups_thorough", "derived_metric"]

WPAL = [(1, 2), (1, 3), (2, 5), (0.5, 1.5)]


def classes_required(tier):
    return [c for c in CLASSES if c != "four_groups_thorough" or tier != "quick"]


def bounds(tier, seed):
    return {"n_max": 3 if tier == "quick" else 4, "G_max": 3 if tier == "quick" else 4,
            "weight_palette": list(WPAL[seed % 4]),
            "weights": "none + 2 patterns (quick); none + all palette vectors for n<=3, 4 patterns for n=4 (thorough)"}


def cases(tier, seed):
    G = 3 if tier == "quick" else 4
    nmax = 3 if tier == "quick" else 4
    rowtypes = [(y, p, g) for g in "abcd"[:G] for y in (0, 1) for p in (0, 1)]
    for n in range(1, nmax + 1):
        for ms in itertools.combinations_with_replacement(range(len(rowtypes)), n):
            yield {"rows": [list(rowtypes[i]) for i in ms], "tier": tier, "seed": seed}


def _weightings(n, tier, seed):
    pal = WPAL[seed % 4]
    pats = [[pal[i % 2] for i in range(n)], [pal[(i + 1) % 2] for i in range(n)]]
    if tier == "quick":
        return [None] + pats
    if n <= 3:
        return [None] + [list(w) for w in itertools.product(pal, repeat=n)]
    return [None] + pats + [[pal[(i // 2) % 2] for i in range(n)], [pal[1] if i == 0 else pal[0] for i in range(n)]]


def _wmean_err(y_true, y_pred, *, scale, wts=None):
    y_true = np.asarray(y_true, float)
    y_pred = np.asarray(y_pred, float)
    w = np.ones(len(y_true)) if wts is None else np.asarray(wts, float)
    return float(scale * np.sum(w * np.abs(y_true - y_pred)) / np.sum(w))


def run_case(case):
    import sklearn.metrics as skm

    import fairlearn.metrics as fm
    from fairlearn.metrics import MetricFrame, make_derived_metric

    rows = case["rows"]
    tier = case["tier"]
    n = len(rows)
    y = [r[0] for r in rows]
    p = [r[1] for r in rows]
    g = [r[2] for r in rows]
    labels = sorted(set(g))
    out = {"evals": 0, "violations": [], "classes": set(), "nontrivial": len(labels) > 1}
    V = out["violations"]
    if len(labels) == 1:
        out["classes"].add("one_group")
    if len(labels) == 4:
        out["classes"].add("four_groups_thorough")
    sizes = [g.count(l) for l in labels]
    if 1 in sizes and n > 1:
        out["classes"].add("single_member_group")
    outcome = []

    def check(name, kw, got, exp, w):
        out["evals"] += 1
        try:
            gv = float(got())
        except Exception as e:
            V.append(viol("C03:%s:raises-%s" % (name, type(e).__name__), "%s(%r) raised %r rows=%r w=%r" % (name, kw, e, rows, w),
                          exp, repr(e), _snip(name, kw, w)))
            return
        if not close(gv, exp):
            V.append(viol("C03:%s:value" % name, "%s(%s)=%r expected %r rows=%r w=%r" % (name, kw, gv, exp, rows, w), exp, gv,
                          _snip(name, kw, w)))

    def _snip(name, kw, w):
        k = dict(kw)
        if w is not None:
            k["sample_weight"] = w
        return "import fairlearn.metrics as fm; print(fm.%s(%r, %r, sensitive_features=%r, **%r))" % (name, y, p, g, k)

    for w in _weightings(n, tier, case["seed"]):
        ww = w or [1.0] * n
        wkw = {} if w is None else {"sample_weight": w}
        if w is not None:
            out["classes"].add("weighted")
        idx = {l: [i for i in range(n) if g[i] == l] for l in labels}

        def rate(name, ids):
            return wrate(name, [y[i] for i in ids], [p[i] for i in ids], [ww[i] for i in ids])

        agg = {}
        for name in ("selection_rate", "true_positive_rate", "false_positive_rate", "true_negative_rate",
                     "false_negative_rate", "accuracy_score", "zero_one_loss"):
            agg[name] = ref_aggregates([rate(name, idx[l]) for l in labels], rate(name, range(n)))
        for l in labels:
            ys = [y[i] for i in idx[l]]
            if 1 not in ys or 0 not in ys:
                out["classes"].add("empty_denominator")
        M = {"between_groups": ("diff_b", "ratio_b"), "to_overall": ("diff_o", "ratio_o")}
        for method, (dk, rk) in M.items():
            kw = {"method": method}
            check("demographic_parity_difference", kw, lambda: fm.demographic_parity_difference(y, p, sensitive_features=g, method=method, **wkw), agg["selection_rate"][dk], w)
            check("demographic_parity_ratio", kw, lambda: fm.demographic_parity_ratio(y, p, sensitive_features=g, method=method, **wkw), agg["selection_rate"][rk], w)
            check("equal_opportunity_difference", kw, lambda: fm.equal_opportunity_difference(y, p, sensitive_features=g, method=method, **wkw), agg["true_positive_rate"][dk], w)
            check("equal_opportunity_ratio", kw, lambda: fm.equal_opportunity_ratio(y, p, sensitive_features=g, method=method, **wkw), agg["true_positive_rate"][rk], w)
            for a in ("worst_case", "mean"):
                kw2 = {"method": method, "agg": a}
                td, fd = agg["true_positive_rate"][dk], agg["false_positive_rate"][dk]
                tr, fr = agg["true_positive_rate"][rk], agg["false_positive_rate"][rk]
                if a == "worst_case":
                    ed, er = max(td, fd), min(tr, fr)
                else:
                    ed, er = (td + fd) / 2, (tr + fr) / 2
                if math.isnan(tr) or math.isnan(fr):
                    er = None  # 0/0 rate ratio: how an undefined component combines is not part of the statement
                check("equalized_odds_difference", kw2, lambda: fm.equalized_odds_difference(y, p, sensitive_features=g, method=method, agg=a, **wkw), ed, w)
                if er is not None:  # min() of a NaN-containing pair is order dependent and not defined by the statement
                    check("equalized_odds_ratio", kw2, lambda: fm.equalized_odds_ratio(y, p, sensitive_features=g, method=method, agg=a, **wkw), er, w)
            gen_methods = True if (tier != "quick" or w is None or method == "between_groups") else False
            if gen_methods:
                for base in ("selection_rate", "true_positive_rate", "false_positive_rate", "true_negative_rate",
                             "false_negative_rate", "accuracy_score", "zero_one_loss"):
                    fd_ = getattr(fm, base + "_difference")
                    fr_ = getattr(fm, base + "_ratio")
                    check(base + "_difference", kw, lambda: fd_(y, p, sensitive_features=g, method=method, **wkw), agg[base][dk], w)
                    check(base + "_ratio", kw, lambda: fr_(y, p, sensitive_features=g, method=method, **wkw), agg[base][rk], w)
        # call history: the calls just made asked for method="to_overall" (and agg="mean"); a call that does not
        # request a method must still be the documented default (between_groups / worst_case), whatever was
        # requested before (seeded change C03d: a mutable default shared by all derived metrics)
        out["classes"].add("default_after_to_overall")
        check("demographic_parity_difference", {}, lambda: fm.demographic_parity_difference(y, p, sensitive_features=g, **wkw), agg["selection_rate"]["diff_b"], w)
        check("demographic_parity_ratio", {}, lambda: fm.demographic_parity_ratio(y, p, sensitive_features=g, **wkw), agg["selection_rate"]["ratio_b"], w)
        check("equal_opportunity_difference", {}, lambda: fm.equal_opportunity_difference(y, p, sensitive_features=g, **wkw), agg["true_positive_rate"]["diff_b"], w)
        check("equal_opportunity_ratio", {}, lambda: fm.equal_opportunity_ratio(y, p, sensitive_features=g, **wkw), agg["true_positive_rate"]["ratio_b"], w)
        check("equalized_odds_difference", {}, lambda: fm.equalized_odds_difference(y, p, sensitive_features=g, **wkw),
              max(agg["true_positive_rate"]["diff_b"], agg["false_positive_rate"]["diff_b"]), w)
        for base in ("selection_rate", "true_positive_rate", "false_positive_rate", "true_negative_rate",
                     "false_negative_rate", "accuracy_score", "zero_one_loss"):
            fd0_ = getattr(fm, base + "_difference")
            fr0_ = getattr(fm, base + "_ratio")
            # one explicit to_overall call directly before the default call of the *other* generated function
            check(base + "_ratio", {"method": "to_overall"}, lambda: fr0_(y, p, sensitive_features=g, method="to_overall", **wkw), agg[base]["ratio_o"], w)
            check(base + "_difference", {}, lambda: fd0_(y, p, sensitive_features=g, **wkw), agg[base]["diff_b"], w)
            check(base + "_difference", {"method": "to_overall"}, lambda: fd0_(y, p, sensitive_features=g, method="to_overall", **wkw), agg[base]["diff_o"], w)
            check(base + "_ratio", {}, lambda: fr0_(y, p, sensitive_features=g, **wkw), agg[base]["ratio_b"], w)
        check("accuracy_score_group_min", {}, lambda: fm.accuracy_score_group_min(y, p, sensitive_features=g, **wkw), agg["accuracy_score"]["min"], w)
        check("zero_one_loss_group_max", {}, lambda: fm.zero_one_loss_group_max(y, p, sensitive_features=g, **wkw), agg["zero_one_loss"]["max"], w)
        if w is None:
            outcome.append([round(agg["selection_rate"]["diff_b"], 9), round(agg["true_positive_rate"]["diff_o"], 9)])
        # sklearn-based generated metrics: first principle = the base metric on the group's rows
        if tier != "quick":
            for base, tr in (("balanced_accuracy_score", "group_min"), ("precision_score", "group_min"),
                             ("recall_score", "group_min"), ("f1_score", "group_min"),
                             ("mean_absolute_error", "group_max"), ("mean_squared_error", "group_max")):
                vals = []
                ok = True
                import warnings
                for l in labels:
                    ids = idx[l]
                    try:
                        with warnings.catch_warnings():
                            warnings.simplefilter("error")
                            kw_ = {} if w is None else {"sample_weight": [ww[i] for i in ids]}
                            vals.append(float(getattr(skm, base)([y[i] for i in ids], [p[i] for i in ids], **kw_)))
                    except Exception:
                        ok = False
                        break
                if not ok:
                    continue
                exp = min(vals) if tr == "group_min" else max(vals)
                fn = getattr(fm, "%s_%s" % (base, tr))
                check("%s_%s" % (base, tr), {}, lambda: fn(y, p, sensitive_features=g, **wkw), exp, w)
        # make_derived_metric == equivalent MetricFrame call
        out["classes"].add("derived_metric")
        for transform in ("difference", "ratio", "group_min", "group_max"):
            d = make_derived_metric(metric=_wmean_err, transform=transform, sample_param_names=["wts"])
            for method in (("between_groups", "to_overall") if transform in ("difference", "ratio") else (None,)):
                kw = {"scale": 2.0}
                if w is not None:
                    kw["wts"] = w
                mkw = {} if method is None else {"method": method}
                mf = MetricFrame(metrics=functools.partial(_wmean_err, scale=2.0), y_true=y, y_pred=p, sensitive_features=g,
                                 sample_params=None if w is None else {"wts": w})
                exp = float(getattr(mf, transform)(**mkw))
                gvals = [2.0 * wrate("zero_one_loss", [y[i] for i in idx[l]], [p[i] for i in idx[l]], [ww[i] for i in idx[l]]) for l in labels]
                R = ref_aggregates(gvals, 2.0 * wrate("zero_one_loss", y, p, ww))
                key = {"difference": {"between_groups": "diff_b", "to_overall": "diff_o"}, "ratio": {"between_groups": "ratio_b", "to_overall": "ratio_o"},
                       "group_min": {None: "min"}, "group_max": {None: "max"}}[transform][method]
                out["evals"] += 2
                try:
                    got = float(d(y, p, sensitive_features=g, **kw, **mkw))
                except Exception as e:
                    V.append(viol("C03:derived:raises-%s" % type(e).__name__, "derived %s raised %r rows=%r w=%r" % (transform, e, rows, w)))
                    continue
                if not close(got, exp) or not close(got, R[key]):
                    V.append(viol("C03:derived:%s" % transform, "derived(%s,%s)=%r MetricFrame=%r first-principles=%r rows=%r w=%r" % (
                        transform, method, got, exp, R[key], rows, w), [exp, R[key]], got))
            if transform in ("difference", "ratio"):
                # the last call requested to_overall: a call without `method` is between_groups again
                out["evals"] += 1
                try:
                    got0 = float(d(y, p, sensitive_features=g, **kw))
                except Exception as e:
                    V.append(viol("C03:derived:raises-%s" % type(e).__name__, "derived %s (default method) raised %r rows=%r w=%r" % (transform, e, rows, w)))
                    continue
                exp0 = R["diff_b" if transform == "difference" else "ratio_b"]
                if not close(got0, exp0):
                    V.append(viol("C03:derived:%s:default-after-to_overall" % transform, "derived(%s) without method=%r after a to_overall call; between_groups first-principles=%r rows=%r w=%r" % (
                        transform, got0, exp0, rows, w), exp0, got0))
    out["outcome"] = outcome
    out["classes"] = sorted(out["classes"])
    return out


def describe(case):
    return {"rows(y,y_pred,group)": case["rows"], "then": "x weightings x ~46 function/method/agg combinations"}


LEVEL_TEXT = ("Every multiset of up to 3 (4) binary rows over up to 3 (4) groups, unweighted and weighted, is passed to all named and "
              "generated fairness functions for every method/agg and compared with rates recomputed from weighted counts by loops; "
              "derived metrics are also compared with the equivalent MetricFrame call. Small-scope exhaustive enumeration fits: the "
              "corner cases named in the statement (single-member groups, empty denominators) all occur at n <= 4.")
LEVEL_NOTE = "Trusts the loop-based rate reference and the C02 aggregate reference; sklearn base metrics are trusted as their own first principle."
TECHNIQUE = "bounded-exhaustive enumeration of datasets x function configurations against a first-principles reference model"
