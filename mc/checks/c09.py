"""C09 - GridSearch trains a faithful best response per grid point and picks the argmin."""
import itertools

import numpy as np

from mc.engine import close, viol
from mc.ref.moments import err_rate, events_of, make_bound, ref_gamma

PROPERTY = "C09"
LEVEL = "exploration"
CHUNK = 2
RULE = ("(i) grid geometry through the real GridSearch.fit with an exact learner: datasets with 2,3,4 groups (complete, and with an "
        "(event,group) pair missing) x parity moments with 1 or 2 events and BoundedGroupLoss x every grid_size in the range x "
        "grid_limit in {0.5,2,3.7}: exactly grid_size columns, pairwise distinct, entry-wise >= 0, L1 norm <= grid_limit. "
        "(ii) faithfulness: all multisets of rows (x,group,label) up to n, 2 groups (thorough also 3), both labels present x "
        "{DP, EO, TPR parity, ErrorRateParity, BGL(square loss, finite regression class)} x grid_size {2,5,11} x "
        "constraint_weight {0,0.3,0.5,1}: recorded objectives_/gammas_ equal values recomputed from predictors_[i].predict, each "
        "predictor minimises error + lambda.gamma over the enumerated hypothesis class (BGL: lambda.gamma), best_idx_ attains the "
        "minimum of (1-cw)*objective + cw*max(gamma), predict/predict_proba delegate to predictors_[best_idx_]; the learner also "
        "records the relabelled targets/weights it was given (y = 1[w>0], weights proportional to |w|). non-trivial = always")
ASSUMPTIONS = ["hypothesis class = all functions of one discrete feature; exact learners in mc/stubs.py",
               "for BoundedGroupLoss the best-response statement is 'minimises lambda.gamma' (the objective lies in the span of the group losses)"]
CLASSES = ["ratio_bound_selection", "geometry", "missing_event_group_pair", "four_groups", "bgl_geometry", "faithfulness", "bgl_faithfulness"]
# classes whose occurrence depends on implementation internals (reported, warned about when absent, never a hard vacuity error)
SOFT_CLASSES = ["tie_in_selection", "relabel_observed"]

GEOM_X = [0, 1, 0, 1, 0, 1, 1, 0, 2, 2, 1, 0]
GEOM_Y = [0, 1, 1, 0, 1, 0, 1, 0, 1, 0, 0, 1]
GEOM_GROUPS = {"g2": "aabbaabbabab", "g3": "aabbccabcabc", "g4": "abcdabcdabcd", "g4_missing": "abcdabcddddd", "g3_missing": "aabbccabcccc"}


def bounds(tier, seed):
    return {"grid_sizes": "2..60" if tier != "quick" else [2, 3, 5, 8, 13, 21, 34, 60], "grid_limits": [0.5, 2.0, 3.7],
            "faithfulness_n": "3, and 4 for EqualizedOdds/BoundedGroupLoss (thorough: 3..5, all moments, 3 groups, 3 feature values)", "grid_sizes_faith": [2, 5, 11], "constraint_weights": [0, 0.3, 0.5, 0.9, 1], "ratio_bound_moments": ["DemographicParity(ratio_bound=0.8)", "EqualizedOdds(ratio_bound=0.8)"]}


def _datasets(k, G, ns):
    rt = [(x, g, l) for x in range(k) for g in "abc"[:G] for l in (0, 1)]
    for n in ns:
        for ms in itertools.combinations_with_replacement(range(len(rt)), n):
            rows = [rt[i] for i in ms]
            if len({r[1] for r in rows}) < 2 or len({r[2] for r in rows}) < 2:
                continue
            yield [list(r) for r in rows]


def cases(tier, seed):
    sizes = [2, 3, 5, 8, 13, 21, 34, 60] if tier == "quick" else list(range(2, 61))
    for gname in GEOM_GROUPS:
        for mname in ("DemographicParity", "EqualizedOdds", "TruePositiveRateParity", "BoundedGroupLoss"):
            for gs in sizes:
                yield {"kind": "geom", "groups": gname, "moment": mname, "grid_size": gs}
    ns = (3, 4) if tier == "quick" else (3, 4, 5)
    for rows in _datasets(2, 2, ns):
        yield {"kind": "faith", "rows": rows, "tier": tier}
    if tier != "quick":
        for rows in _datasets(2, 3, (3, 4)):
            if len({r[1] for r in rows}) == 3:
                yield {"kind": "faith", "rows": rows, "tier": tier}
        for rows in _datasets(3, 2, (3, 4)):
            if len({r[0] for r in rows}) == 3:
                yield {"kind": "faith", "rows": rows, "tier": tier}


def describe(case):
    return case


def _mk_moment(mname):
    import fairlearn.reductions as red

    if mname == "BoundedGroupLoss":
        return red.BoundedGroupLoss(red.SquareLoss(0, 1), upper_bound=0.1)
    if mname.endswith("@ratio"):
        return getattr(red, mname.split("@")[0])(ratio_bound=0.8)
    return getattr(red, mname)()


def _geom(case):
    import fairlearn.reductions as red

    from mc.stubs import ExactLearner, ExactRegressor

    a = list(GEOM_GROUPS[case["groups"]])
    n = len(a)
    X = np.array(GEOM_X[:n], float).reshape(-1, 1)
    y = GEOM_Y[:n]
    mname, gs = case["moment"], case["grid_size"]
    out = {"evals": 0, "violations": [], "classes": {"geometry"}, "nontrivial": True}
    V = out["violations"]
    if "missing" in case["groups"]:
        out["classes"].add("missing_event_group_pair")
    if case["groups"].startswith("g4"):
        out["classes"].add("four_groups")
    if mname == "BoundedGroupLoss":
        out["classes"].add("bgl_geometry")
    # does the moment lack an (event, group) pair on this dataset?
    missing = False
    if mname != "BoundedGroupLoss":
        ev = events_of(mname, y, None)
        for e in set(v for v in ev if v is not None):
            if set(a[i] for i in range(n) if ev[i] == e) != set(a):
                missing = True
    outcome = []
    for lim in (0.5, 2.0, 3.7):
        out["evals"] += 1
        est = ExactRegressor() if mname == "BoundedGroupLoss" else ExactLearner()
        yy = [0.25 + 0.5 * v for v in y] if mname == "BoundedGroupLoss" else y
        g = red.GridSearch(est, _mk_moment(mname), grid_size=gs, grid_limit=lim)
        ctx = "%s groups=%s grid_size=%d grid_limit=%r" % (mname, "".join(a), gs, lim)
        snip = ("import numpy as np, fairlearn.reductions as r; from mc.stubs import ExactLearner; X=np.array(%r,float).reshape(-1,1); "
                "g=r.GridSearch(ExactLearner(), r.%s(), grid_size=%d, grid_limit=%r); g.fit(X, %r, sensitive_features=list(%r)); "
                "L=g.lambda_vecs_; print(L.shape, len({tuple(L[c].round(12)) for c in L.columns}))" % (GEOM_X[:n], mname, gs, lim, y, "".join(a)))
        try:
            g.fit(X, np.array(yy), sensitive_features=np.array(a))
        except Exception as e:
            allzero = "non-zero" in str(e) or "NaN" in str(e)
            V.append(viol("C09:fit:raises-%s%s" % (type(e).__name__, ":all-zero-weights" if allzero else ""), "fit raised %r (%s)" % (e, ctx), None, repr(e), snip))
            continue
        L = g.lambda_vecs_
        cols = [tuple(np.round(L[c].values, 12)) for c in L.columns]
        if L.shape[1] != gs or len(g.predictors_) != gs:
            V.append(viol("C09:grid:column-count", "%d multiplier vectors / %d predictors, expected %d (%s)" % (L.shape[1], len(g.predictors_), gs, ctx), gs, L.shape[1], snip))
        if len(set(cols)) != len(cols):
            sig = "C09:grid:duplicate-columns-with-missing-pair" if missing else "C09:grid:duplicate-columns"
            V.append(viol(sig, "only %d distinct multiplier vectors among %d (%s)" % (len(set(cols)), len(cols), ctx), len(cols), len(set(cols)), snip))
        if (L.values < -1e-12).any() or np.isnan(L.values).any():
            V.append(viol("C09:grid:negative-entry", "negative or NaN multiplier (%s)" % ctx, None, None, snip))
        if (np.abs(L.values).sum(axis=0) > lim + 1e-9).any():
            V.append(viol("C09:grid:L1-exceeds-limit", "max L1 norm %r > grid_limit %r (%s)" % (float(np.abs(L.values).sum(axis=0).max()), lim, ctx), lim, None, snip))
        outcome.append([L.shape[1], len(set(cols))])
    out["outcome"] = outcome
    out["classes"] = sorted(out["classes"])
    return out


class _Recorder:
    """Mixin: remember what fit() was given (class-level log, reset by the harness)."""
    log = []


def _faith(case):
    import fairlearn.reductions as red

    from mc.stubs import ExactLearner, ExactRegressor

    rows = case["rows"]
    n = len(rows)
    X = np.array([[r[0]] for r in rows], float)
    a = [r[1] for r in rows]
    y = [r[2] for r in rows]
    xs = sorted(set(r[0] for r in rows))
    out = {"evals": 0, "violations": [], "classes": {"faithfulness"}, "nontrivial": True}
    V = out["violations"]
    H = [dict(zip(xs, bits)) for bits in itertools.product([0, 1], repeat=len(xs))]
    HP = [[float(h[r[0]]) for r in rows] for h in H]
    LEVELS = (0.0, 0.5, 1.0)
    HR = [dict(zip(xs, bits)) for bits in itertools.product(LEVELS, repeat=len(xs))]
    HRP = [[float(h[r[0]]) for r in rows] for h in HR]
    outcome = []

    class RecLearner(ExactLearner):
        def fit(self, X_, y_, sample_weight=None):
            _Recorder.log.append((np.asarray(y_).astype(int).tolist(), np.asarray(sample_weight, float).tolist()))
            return super().fit(X_, y_, sample_weight=sample_weight)

    for mname in ("DemographicParity", "EqualizedOdds", "TruePositiveRateParity", "ErrorRateParity", "BoundedGroupLoss", "DemographicParity@ratio", "EqualizedOdds@ratio"):
        bgl = mname == "BoundedGroupLoss"
        ratio = 0.8 if mname.endswith("@ratio") else 1.0
        base = mname.split("@")[0]
        if case["tier"] == "quick" and (mname == "EqualizedOdds@ratio" or (n >= 4 and mname not in ("EqualizedOdds", "BoundedGroupLoss"))):
            continue  # quick: n=4 only for the two-event moment and the loss moment; one ratio-bound moment at n=3
        if bgl:
            out["classes"].add("bgl_faithfulness")
            yy = [0.25 + 0.5 * v for v in y]
        else:
            yy = y
        for gs in (2, 5, 11):
            for cw in (0.0, 0.3, 0.5, 0.9, 1.0):
                if cw not in (0.0, 0.5) and gs != 5 and case["tier"] == "quick":
                    continue
                if ratio != 1.0 and cw in (0.0, 0.3):
                    continue  # ratio-bound moments: the signed gammas are not mirror images; exercised with high constraint weights
                out["evals"] += 1
                _Recorder.log = []
                est = ExactRegressor(LEVELS) if bgl else RecLearner()
                g = red.GridSearch(est, _mk_moment(mname), grid_size=gs, constraint_weight=cw)
                ctx = "%s grid_size=%d constraint_weight=%r rows=%r" % (mname, gs, cw, rows)
                snip = ("import numpy as np, fairlearn.reductions as r; from mc.stubs import ExactLearner; rows=%r; X=np.array([[q[0]] for q in rows],float); "
                        "g=r.GridSearch(ExactLearner(), r.%s(), grid_size=%d, constraint_weight=%r); g.fit(X,[q[2] for q in rows],sensitive_features=[q[1] for q in rows]); "
                        "print(g.best_idx_, g.objectives_, g.gammas_)" % (rows, (base + ("(ratio_bound=0.8)" if ratio != 1.0 else "()"))[:-2] if not bgl else "DemographicParity", gs, cw))
                try:
                    g.fit(X, np.array(yy), sensitive_features=np.array(a))
                except Exception as e:
                    allzero = "non-zero" in str(e) or "NaN" in str(e)
                    V.append(viol("C09:fit:raises-%s%s" % (type(e).__name__, ":all-zero-weights" if allzero else ""), "fit raised %r (%s)" % (e, ctx), None, repr(e), snip))
                    continue
                cols = list(g.lambda_vecs_.columns)
                if len(cols) != gs or len(g.predictors_) != gs or len(g.objectives_) != gs:
                    V.append(viol("C09:grid:column-count", "%d vectors, %d predictors, %d objectives for grid_size %d (%s)" % (
                        len(cols), len(g.predictors_), len(g.objectives_), gs, ctx), None, None, snip))
                    continue
                losses = []
                fit_calls = list(_Recorder.log)
                for i, col in enumerate(cols):
                    lam = g.lambda_vecs_[col]
                    p = [float(v) for v in np.asarray(g.predictors_[i].predict(X)).ravel()]
                    if bgl:
                        groups = sorted(set(a))
                        rg = {grp: sum((yy[j] - p[j]) ** 2 for j in range(n) if a[j] == grp) / a.count(grp) for grp in groups}
                        obj = sum((yy[j] - p[j]) ** 2 for j in range(n)) / n
                        lamd = {k: float(lam[k]) for k in rg}
                    else:
                        rg = ref_gamma(base, ratio, y, a, None, p)
                        obj = err_rate(y, p)
                        lamd = {k: float(lam[k]) for k in rg} if set(rg) == set(tuple(t) for t in lam.index) else None
                    got = g.gammas_[col]
                    gotd = {(tuple(k) if isinstance(k, tuple) else k): float(v) for k, v in got.items()}
                    if set(gotd) != set(rg) or any(not close(gotd[k], rg[k], 1e-12) for k in rg) or not close(g.objectives_[i], obj, 1e-12):
                        V.append(viol("C09:recorded-values", "column %d: recorded objective %r / gammas %r, recomputed %r / %r (%s)" % (
                            i, g.objectives_[i], gotd, obj, rg, ctx), [obj, {str(k): v for k, v in rg.items()}], None, snip))
                        continue
                    if lamd is None:
                        continue
                    # best response over the enumerated class
                    if bgl:
                        val = sum(lamd[k] * rg[k] for k in rg)
                        best = min(sum(lamd[grp] * sum((yy[j] - hp[j]) ** 2 for j in range(n) if a[j] == grp) / a.count(grp) for grp in rg) for hp in HRP)
                    else:
                        val = obj + sum(lamd[k] * rg[k] for k in rg)
                        best = min(err_rate(y, hp) + sum(lamd[k] * v for k, v in ref_gamma(base, ratio, y, a, None, hp).items()) for hp in HP)
                    if val > best + 1e-9:
                        V.append(viol("C09:best-response", "column %d (lambda=%r): predictor has value %r, best in class %r (%s)" % (
                            i, {str(k): v for k, v in lamd.items()}, val, best, ctx), best, val, snip))
                    losses.append((1 - cw) * obj + cw * max(rg.values()))
                    if ratio != 1.0:
                        out["classes"].add("ratio_bound_selection")
                    # relabel / reweight actually handed to the learner
                    if not bgl:
                        import pandas as pd

                        m2 = _mk_moment(mname)
                        m2.load_data(X, np.array(y), sensitive_features=np.array(a))
                        o2 = red.ErrorRate()
                        o2.load_data(X, np.array(y), sensitive_features=np.array(a))
                        w = np.asarray(m2.signed_weights(pd.Series(lam.values, index=m2.index)), float) + np.asarray(o2.signed_weights(), float)
                        ry = (w > 0).astype(int).tolist()
                        if len(set(ry)) > 1:  # otherwise the DummyClassifier shortcut is taken and the learner is not called
                            out["classes"].add("relabel_observed")
                            aw = np.abs(w)
                            # some call of the learner (order and number of calls are the implementation's business) must have received
                            # exactly this relabelling with weights proportional to |w|
                            ok_call = False
                            for gy, gw in fit_calls:
                                if gy != ry or len(gw) != len(aw):
                                    continue
                                scale = (np.dot(gw, aw) / np.dot(aw, aw)) if np.dot(aw, aw) > 0 else 1.0
                                if scale > 0 and np.allclose(gw, scale * aw, rtol=1e-9, atol=1e-12):
                                    ok_call = True
                                    break
                            if not ok_call:
                                V.append(viol("C09:relabel:wrong-reduction", "column %d: no call of the learner received y=%r with weights proportional to %r; calls seen: %r (%s)" % (
                                    i, ry, aw.tolist(), fit_calls[:3], ctx), [ry, aw.tolist()], fit_calls[:3], snip))
                if len(losses) == gs:
                    if losses[g.best_idx_] > min(losses) + 1e-12:
                        V.append(viol("C09:selection", "best_idx_=%d has loss %r, minimum is %r at %d (%s)" % (
                            g.best_idx_, losses[g.best_idx_], min(losses), losses.index(min(losses)), ctx), losses.index(min(losses)), g.best_idx_, snip))
                    if sum(1 for v in losses if abs(v - min(losses)) <= 1e-12) > 1:
                        out["classes"].add("tie_in_selection")
                    pb = np.asarray(g.predictors_[g.best_idx_].predict(X))
                    if not np.array_equal(np.asarray(g.predict(X)), pb):
                        V.append(viol("C09:predict-delegation", "predict(X) differs from predictors_[best_idx_].predict(X) (%s)" % ctx, None, None, snip))
                    if not bgl:
                        try:
                            pp = np.asarray(g.predict_proba(X))
                            if not np.array_equal(pp, np.asarray(g.predictors_[g.best_idx_].predict_proba(X))):
                                V.append(viol("C09:predict_proba-delegation", "predict_proba differs from the selected predictor's (%s)" % ctx, None, None, snip))
                        except AttributeError:
                            pass  # DummyClassifier / learner without predict_proba
                    if cw == 0.5:
                        outcome.append([mname, gs, int(g.best_idx_), round(float(losses[g.best_idx_]), 9)])
    out["outcome"] = outcome
    out["classes"] = sorted(out["classes"])
    return out


def run_case(case):
    return _geom(case) if case["kind"] == "geom" else _faith(case)


LEVEL_TEXT = ("Grid geometry is checked for every grid_size in 2..60 on every moment basis shape reachable with 2-4 groups (incl. "
              "datasets with a missing (event,group) pair), and faithfulness (recorded values, best response against the enumerated "
              "hypothesis class, selection rule, delegation, the relabelling handed to the learner) on every small dataset x moment x "
              "grid size x constraint weight. The suite compares against stored numbers for two datasets and never against a "
              "brute-force best response.")
LEVEL_NOTE = "Trusts the exact learners of mc/stubs.py and the reference gamma; selection ties accept any minimiser."
TECHNIQUE = "bounded-exhaustive enumeration of configurations (all grid sizes) and datasets on the real code against a brute-force reference"
