"""C01 - MetricFrame disaggregation is exact."""
import functools
import itertools
import math

import numpy as np
import pandas as pd

from mc.engine import viol
from mc.ref.metrics import as_tuple, enc, groups_of, spy, spy_const, spy_w

PROPERTY = "C01"
LEVEL = "exploration"
CHUNK = 16
RULE = ("for each layout (s sensitive, c control features) every assignment sequence of n rows to feature values "
        "(binary; ternary when s+c=1), n up to the layout bound; 6 metric programs (bare callable with per-sample "
        "parameter, bare callable without, dict of four metrics with sample_params for one, functools.partial, dict "
        "with the same function / a same-named function under several keys each with its own parameter array, dict whose "
        "key+parameter names concatenate to the same string); the "
        "metric is a spy returning an injective encoding of the row ids it was handed (and -1 if y_pred / the sample "
        "parameter were not sliced identically); reference = dict(feature tuple -> row ids) built by loops; "
        "non-trivial = at least two groups or an empty intersection; distinct = distinct (layout, assignment)")
ASSUMPTIONS = ["NaN or mixed-type feature values and feature names colliding with y_true/y_pred are outside the alphabet",
               "index order of by_group is not asserted (the statement fixes the set)"]
CLASSES = ["empty_intersection", "single_member_group", "one_group_only", "n1", "control_features", "three_sensitive"]

LAYOUTS = [(1, 0), (2, 0), (1, 1), (3, 0), (2, 1), (1, 2), (3, 1), (2, 2), (3, 2)]
NMAX = {1: 6, 2: 5, 3: 4, 4: 3, 5: 3}
VALUE_PALETTES = [("p", "q", "r"), (0, 1, 2), ("b", "a", "B"), (1.5, 0.5, 2.5)]


def bounds(tier, seed):
    d = 0 if tier != "quick" else 1
    return {"layouts": LAYOUTS, "n_max_by_feature_count": {k: v - d for k, v in NMAX.items()},
            "feature_values": list(VALUE_PALETTES[seed % len(VALUE_PALETTES)])}


def cases(tier, seed):
    d = 0 if tier != "quick" else 1
    for (s, c) in LAYOUTS:
        k = s + c
        base = 3 if k == 1 else 2
        for n in range(1, NMAX[k] - d + 1):
            for a in itertools.product(range(base ** k), repeat=n):
                yield {"s": s, "c": c, "a": list(a), "seed": seed}


def columns(case):
    s, c, a = case["s"], case["c"], case["a"]
    k = s + c
    base = 3 if k == 1 else 2
    pal = VALUE_PALETTES[case["seed"] % len(VALUE_PALETTES)]
    cols = []
    for j in range(k):
        cols.append([pal[(x // base ** j) % base] for x in a])
    return cols


def describe(case):
    cols = columns(case)
    c = case["c"]
    return {"control_features": {"c%d" % j: cols[j] for j in range(c)},
            "sensitive_features": {"s%d" % j: cols[c + j] for j in range(case["s"])},
            "y_true": list(range(len(case["a"]))), "programs": 4}


def _wsum(y_true, y_pred, w):
    return float(np.sum(w))


def _mk_wsum2():
    def _wsum(y_true, y_pred, w):  # a DIFFERENT function object with the same __name__
        return float(np.sum(w))
    return _wsum


_wsum2 = _mk_wsum2()


def _wsum_bw(y_true, y_pred, b_w):
    return float(np.sum(b_w))


def _wsum_pred(y_true, y_pred, pred):
    return float(np.sum(pred) + 1000.0 * np.sum(y_pred))


def _cellval(obj, key):
    return obj[key if len(key) > 1 else key[0]]


def run_case(case):
    from fairlearn.metrics import MetricFrame, count

    s, c = case["s"], case["c"]
    cols = columns(case)
    n = len(case["a"])
    k = s + c
    ids = np.arange(n)
    cf = {"c%d" % j: cols[j] for j in range(c)}
    sf = {"s%d" % j: cols[c + j] for j in range(s)}
    rows = groups_of(cols, n)
    obs_vals = [sorted(set(col)) for col in cols]
    exp_idx = set(itertools.product(*obs_vals))
    crows = groups_of(cols[:c], n) if c else None
    exp_cidx = set(itertools.product(*obs_vals[:c])) if c else None
    out = {"evals": 0, "violations": [], "classes": set()}
    V = out["violations"]
    if len(exp_idx) > len(rows):
        out["classes"].add("empty_intersection")
    if any(len(v) == 1 for v in rows.values()) and n > 1:
        out["classes"].add("single_member_group")
    if len(rows) == 1:
        out["classes"].add("one_group_only")
    if n == 1:
        out["classes"].add("n1")
    if c:
        out["classes"].add("control_features")
    if s == 3:
        out["classes"].add("three_sensitive")
    out["nontrivial"] = len(exp_idx) > 1

    w = 100 * ids + 7
    programs = [
        ("callable_w", spy_w, {"w": w}, None),
        ("callable", spy, None, None),
        ("dict", {"sw": spy_w, "s": spy, "k": spy_const, "n": count}, {"sw": {"w": w}}, "sw"),
        ("partial", functools.partial(spy_w), {"w": w}, None),
    ]
    snip = ("from fairlearn.metrics import MetricFrame; from mc.ref.metrics import spy_w, spy; import numpy as np; "
            "ids=np.arange(%d); mf=MetricFrame(metrics=spy_w, y_true=ids, y_pred=10*ids+1, sample_params={'w':100*ids+7}, "
            "sensitive_features=%r%s); print(mf.by_group, mf.overall)" % (n, sf, (", control_features=%r" % cf) if c else ""))
    # (e) the same function under two dict keys, each with its OWN per-sample parameter array
    out["evals"] += 1
    try:
        w1, w2 = 2.0 ** ids, 2.0 ** (ids + n)
        mfe = MetricFrame(metrics={"a": _wsum, "b": _wsum, "c": _wsum2}, y_true=ids, y_pred=10 * ids + 1, sensitive_features=sf,
                          **({"control_features": cf} if c else {}), sample_params={"a": {"w": w1}, "b": {"w": w2}, "c": {"w": w1 + w2}})
        for key, shift in (("a", 0), ("b", n)):
            col = mfe.by_group[key]
            for t in col.index:
                r = rows.get(as_tuple(t))
                e = float(sum(2.0 ** (i + shift) for i in r)) if r else float("nan")
                v = float(col[t])
                if not ((math.isnan(v) and math.isnan(e)) or v == e):
                    V.append(viol("C01:same-function-twice:sample-param-mixup", "metric %r (same function as the other key, own parameter array): cell %r = %r, "
                                  "expected %r for %s" % (key, t, v, e, describe(case)), e, v, snip))
        ce = mfe.by_group["c"]
        for t in ce.index:
            r = rows.get(as_tuple(t))
            e = float(sum(2.0 ** i + 2.0 ** (i + n) for i in r)) if r else float("nan")
            v = float(ce[t])
            if not ((math.isnan(v) and math.isnan(e)) or v == e):
                V.append(viol("C01:same-name-function:sample-param-mixup", "cell %r = %r expected %r" % (t, v, e), e, v, snip))
        # (f) metric keys / parameter names whose concatenation coincides ("a"+"b_w" vs "a_b"+"w"; "y"+"pred" vs the prediction column)
        out["evals"] += 1
        mff = MetricFrame(metrics={"a": _wsum_bw, "a_b": _wsum, "y": _wsum_pred}, y_true=ids, y_pred=10 * ids + 1, sensitive_features=sf,
                          **({"control_features": cf} if c else {}), sample_params={"a": {"b_w": w1}, "a_b": {"w": w2}, "y": {"pred": w1 + w2}})
        for key, fn_ in (("a", lambda r: sum(2.0 ** i for i in r)), ("a_b", lambda r: sum(2.0 ** (i + n) for i in r)),
                         ("y", lambda r: sum(2.0 ** i + 2.0 ** (i + n) + 1000.0 * (10 * i + 1) for i in r))):
            col = mff.by_group[key]
            for t in col.index:
                r = rows.get(as_tuple(t))
                e = float(fn_(r)) if r else float("nan")
                v = float(col[t])
                if not ((math.isnan(v) and math.isnan(e)) or v == e):
                    V.append(viol("C01:param-name-collision:%s" % key, "metric %r: cell %r = %r, expected %r (its own per-sample parameter / the real y_pred) for %s" % (
                        key, t, v, e, describe(case)), e, v,
                        "import numpy as np; from fairlearn.metrics import MetricFrame; f=lambda y_true,y_pred,b_w: float(np.sum(b_w)); g=lambda y_true,y_pred,w: float(np.sum(w)); "
                        "print(MetricFrame(metrics={'a':f,'a_b':g}, y_true=[0,1], y_pred=[0,1], sensitive_features=['p','q'], sample_params={'a':{'b_w':[1,2]},'a_b':{'w':[4,8]}}).overall)"))
                    break
    except Exception as ex:
        V.append(viol("C01:same-function-twice:raises-%s" % type(ex).__name__, "MetricFrame raised %r for %s" % (ex, describe(case)), None, repr(ex), snip))
    outcome = []
    for pname, metrics, sp, col in programs:
        kw = dict(metrics=metrics, y_true=ids, y_pred=10 * ids + 1)
        if pname == "callable":
            kw["sensitive_features"] = pd.DataFrame(sf)
            if c:
                kw["control_features"] = pd.DataFrame(cf)
        else:
            kw["sensitive_features"] = sf
            if c:
                kw["control_features"] = cf
        if sp is not None:
            kw["sample_params"] = sp
        out["evals"] += 1
        try:
            mf = MetricFrame(**kw)
            bg, ov = mf.by_group, mf.overall
        except Exception as e:
            V.append(viol("C01:%s:raises-%s" % (pname, type(e).__name__), "MetricFrame raised %r for %s" % (e, describe(case)),
                          None, repr(e), snip))
            continue
        isdict = isinstance(metrics, dict)
        # documented result types
        if isdict:
            ok_t = isinstance(bg, pd.DataFrame) and (isinstance(ov, pd.DataFrame) if c else isinstance(ov, pd.Series))
        else:
            ok_t = isinstance(bg, pd.Series) and (isinstance(ov, pd.Series) if c else np.ndim(ov) == 0)
        if not ok_t:
            V.append(viol("C01:%s:result-type" % pname, "by_group %s / overall %s for %s" % (type(bg).__name__, type(ov).__name__, describe(case))))
            continue
        if list(mf.sensitive_levels) != list(sf) or list(mf.control_levels or []) != list(cf):
            V.append(viol("C01:%s:levels" % pname, "levels %r %r" % (mf.sensitive_levels, mf.control_levels)))
        metric_cols = list(metrics) if isdict else [None]
        for mcol in metric_cols:
            bgv = bg[mcol] if isdict else bg
            idx = [as_tuple(t) for t in bgv.index]
            if set(idx) != exp_idx or len(idx) != len(exp_idx):
                V.append(viol("C01:%s:by_group-index" % pname, "index %r expected set %r" % (idx, sorted(exp_idx, key=str)),
                              sorted(map(list, exp_idx), key=str), [list(t) for t in idx], snip))
                continue
            for t in idx:
                v = _cellval(bgv, t)
                r = rows.get(t)
                if mcol in (None, "sw", "s"):
                    e = enc(r) if r else float("nan")
                elif mcol == "k":
                    e = 3.0 if r else float("nan")
                else:
                    e = float(len(r)) if r else float("nan")
                try:
                    vf = float(v)
                except Exception:
                    vf = None
                if vf is None or not ((math.isnan(vf) and math.isnan(e)) or vf == e):
                    V.append(viol("C01:%s:by_group-value" % pname, "cell %r of %r = %r, expected %r (row-id encoding) for %s" % (
                        t, mcol, v, e, describe(case)), e, repr(v), snip))
            if mcol in (None, "sw"):
                outcome.append(sorted((str(t), None if math.isnan(float(_cellval(bgv, t))) else float(_cellval(bgv, t))) for t in idx))
            # overall
            if c == 0:
                ovv = ov[mcol] if isdict else ov
                e = {None: enc(range(n)), "sw": enc(range(n)), "s": enc(range(n)), "k": 3.0, "n": float(n)}[mcol]
                if float(ovv) != e:
                    V.append(viol("C01:%s:overall-value" % pname, "overall %r = %r expected %r" % (mcol, ovv, e), e, repr(ovv), snip))
            else:
                ovv = ov[mcol] if isdict else ov
                oi = [as_tuple(t) for t in ovv.index]
                if set(oi) != exp_cidx or len(oi) != len(exp_cidx):
                    V.append(viol("C01:%s:overall-index" % pname, "overall index %r expected %r" % (oi, exp_cidx), None, None, snip))
                    continue
                for t in oi:
                    r = crows.get(t)
                    if mcol in (None, "sw", "s"):
                        e = enc(r) if r else float("nan")
                    elif mcol == "k":
                        e = 3.0 if r else float("nan")
                    else:
                        e = float(len(r)) if r else float("nan")
                    vf = float(_cellval(ovv, t))
                    if not ((math.isnan(vf) and math.isnan(e)) or vf == e):
                        V.append(viol("C01:%s:overall-value" % pname, "overall[%r] of %r = %r expected %r for %s" % (t, mcol, vf, e, describe(case)),
                                      e, vf, snip))
    out["outcome"] = outcome
    out["classes"] = sorted(out["classes"])
    return out


LEVEL_TEXT = ("Every assignment of up to n rows to the feature-value combinations of each of the 9 (sensitive, control) layouts is "
              "pushed through the real MetricFrame with a spy metric that reports exactly which rows and sliced parameters it "
              "received; each cell, the index set, the NaN placement and overall are compared with a loop-built partition. "
              "Bounded-exhaustive enumeration is the right level: disaggregation defects depend on group structure "
              "(empty intersections, singleton groups, row order), all of which occur below 6 rows.")
LEVEL_NOTE = "Trusts the 30-line reference partition and the injective float encoding (exact below 2^53); feature values are limited to the palettes; index order is deliberately not asserted."
TECHNIQUE = "bounded-exhaustive enumeration of datasets x metric programs with a spy metric against a reference partition (small-scope explicit exploration)"
