"""C12 - rows are matched by position, not by container type, index label or row order."""
import itertools
import math

import numpy as np
import pandas as pd

from mc.engine import viol

PROPERTY = "C12"
LEVEL = "exploration"
CHUNK = 8
RULE = ("deviation-bounded container exploration: per vector argument the kinds {list, ndarray, Series and one-column DataFrame with "
        "default / shuffled / +100 offset / all-zero duplicate / string index} (feature arguments additionally dict of arrays, 2-D "
        "ndarray, multi-column DataFrame); baseline = all lists; quick: every assignment with <= 2 arguments deviating, thorough: the "
        "full product over a reduced kind set. Entry points: MetricFrame (5 data arguments), two named fairness metrics, the five "
        "parity moments (index, gamma, signed_weights), ExponentiatedGradient, GridSearch, ThresholdOptimizer (fit and predict "
        "arguments). Differential oracle: result for the deviated containers == result for the baseline. Row order: for every "
        "SEQUENCE of rows up to n over the C03 alphabet, f(sequence) == f(sorted sequence) (hence invariance under all "
        "permutations); group-label bijections: all bijections of <= 3 labels onto a second label set incl. order-reversing. "
        "non-trivial = at least one argument deviates from the baseline / the sequence is not sorted; distinct = distinct assignments")
ASSUMPTIONS = ["level NAMES may follow Series/column/dict names; only values and index entries are compared",
               "moment data with a single row is outside the statement's entry points (load_data cannot take it)"]
CLASSES = ["shuffled_index", "duplicate_index", "string_index", "dataframe_vector", "dict_features", "two_deviations", "metricframe", "named_metric",
           "moment", "eg", "gridsearch", "thresholder", "row_order", "label_bijection", "single_row"]

VEC_KINDS = ["list", "ndarray", "series", "series_shuffled", "series_offset", "series_dup", "series_str", "df", "df_shuffled", "df_dup"]
REDUCED = ["list", "ndarray", "series_shuffled", "df_dup"]


def wrap_vec(v, kind, name="v"):
    n = len(v)
    idx = {"series": list(range(n)), "df": list(range(n)), "series_shuffled": [(7 * i + 3) % n if math.gcd(7, n) == 1 else (n - 1 - i) for i in range(n)],
           "df_shuffled": list(range(n))[::-1], "series_offset": [100 + i for i in range(n)], "series_dup": [0] * n, "df_dup": [0] * n,
           "series_str": ["r%d" % ((3 * i + 1) % (n + 2)) for i in range(n)]}
    if kind == "list":
        return list(v)
    if kind == "ndarray":
        return np.asarray(v)
    if kind.startswith("series"):
        return pd.Series(list(v), index=idx[kind], name=name)
    return pd.DataFrame({name: list(v)}, index=idx[kind])


def wrap_feat(cols, kind):
    """cols: dict name -> list. kinds for feature arguments (one or several columns)."""
    names = list(cols)
    n = len(cols[names[0]])
    if kind == "dict":
        return {k: list(v) for k, v in cols.items()}
    if kind == "dict_arrays":
        return {k: np.asarray(v) for k, v in cols.items()}
    if kind == "ndarray2d":
        return np.array([[cols[k][i] for k in names] for i in range(n)], dtype=object)
    if kind == "df":
        return pd.DataFrame({k: list(v) for k, v in cols.items()})
    if kind == "df_shuffled":
        return pd.DataFrame({k: list(v) for k, v in cols.items()}, index=list(range(n))[::-1])
    if kind == "df_dup":
        return pd.DataFrame({k: list(v) for k, v in cols.items()}, index=[0] * n)
    if len(names) == 1:
        return wrap_vec(cols[names[0]], kind, names[0])
    raise KeyError(kind)


FEAT_KINDS_1 = VEC_KINDS + ["dict", "dict_arrays"]
FEAT_KINDS_2 = ["dict", "dict_arrays", "ndarray2d", "df", "df_shuffled", "df_dup"]

DATA = [
    {"y": [0, 1, 1, 0, 1, 0, 1], "p": [1, 1, 0, 0, 1, 1, 0], "a": list("abbacab"), "c": list("uvuvvuu"), "w": [1, 2, 3, 4, 5, 6, 7], "x": [0, 1, 2, 0, 1, 2, 1]},
    {"y": [1, 0, 0, 1, 1, 0], "p": [0, 1, 0, 1, 1, 0], "a": list("ccabab"), "c": list("uuvvuv"), "w": [2, 1, 4, 3, 6, 5], "x": [1, 0, 2, 2, 0, 1]},
    {"y": [0, 1, 0, 1, 1], "p": [0, 0, 1, 1, 0], "a": list("ababb"), "c": list("uuvvv"), "w": [5, 1, 2, 4, 3], "x": [0, 1, 1, 0, 2]},
]


def _lab(i):
    return tuple(str(x) for x in i) if isinstance(i, tuple) else str(i)


def _num(v):
    return None if pd.isna(v) else round(float(v), 12)


def _obs_frame(mf):
    def flat(o):
        if isinstance(o, pd.DataFrame):
            return sorted((str(_lab(i)), str(c), _num(o.loc[i, c])) for i in o.index for c in o.columns)
        if isinstance(o, pd.Series):
            return sorted((str(_lab(i)), _num(o[i])) for i in o.index)
        return _num(o)
    return [flat(mf.by_group), flat(mf.overall), flat(mf.difference(method="to_overall"))]


def ep_metricframe(d, two_features):
    from fairlearn.metrics import MetricFrame, selection_rate

    def wsum(y_true, y_pred, sample_weight):
        return float(np.sum(np.asarray(sample_weight) * (2 * np.asarray(y_true) + np.asarray(y_pred) + 1)))
    args = ["y_true", "y_pred", "sf", "cf", "w"]
    sf_cols = {"a": d["a"], "x": [str(v) for v in d["x"]]} if two_features else {"a": d["a"]}
    kinds = {"y_true": VEC_KINDS, "y_pred": VEC_KINDS, "w": VEC_KINDS, "sf": FEAT_KINDS_2 if two_features else FEAT_KINDS_1, "cf": FEAT_KINDS_1}
    base = {"y_true": "list", "y_pred": "list", "w": "list", "sf": "dict" if two_features else "list", "cf": "list"}

    def call(k):
        mf = MetricFrame(metrics={"ws": wsum, "sr": selection_rate}, y_true=wrap_vec(d["y"], k["y_true"], "yt"), y_pred=wrap_vec(d["p"], k["y_pred"], "yp"),
                         sensitive_features=wrap_feat(sf_cols, k["sf"]), control_features=wrap_feat({"c": d["c"]}, k["cf"]),
                         sample_params={"ws": {"sample_weight": wrap_vec(d["w"], k["w"], "sw")}, "sr": {"sample_weight": wrap_vec(d["w"], k["w"], "sw")}})
        return _obs_frame(mf)
    return args, kinds, base, call


def ep_named(d, fname):
    import fairlearn.metrics as fm
    args = ["y_true", "y_pred", "sf", "w"]
    kinds = {"y_true": VEC_KINDS, "y_pred": VEC_KINDS, "w": VEC_KINDS, "sf": FEAT_KINDS_1}
    base = {a: "list" for a in args}

    def call(k):
        f = getattr(fm, fname)
        return _num(f(wrap_vec(d["y"], k["y_true"], "yt"), wrap_vec(d["p"], k["y_pred"], "yp"), sensitive_features=wrap_feat({"a": d["a"]}, k["sf"]),
                      sample_weight=wrap_vec(d["w"], k["w"], "sw")))
    return args, kinds, base, call


def _wrapX(x, kind):
    X = np.array(x, float).reshape(-1, 1)
    n = len(x)
    if kind == "ndarray":
        return X
    if kind == "df":
        return pd.DataFrame(X, columns=["f"])
    if kind == "df_shuffled":
        return pd.DataFrame(X, columns=["f"], index=list(range(n))[::-1])
    return pd.DataFrame(X, columns=["f"], index=[0] * n)


XK = ["ndarray", "df", "df_shuffled", "df_dup"]
YK = ["list", "ndarray", "series", "series_shuffled", "series_dup", "series_str", "df", "df_shuffled", "df_dup"]
SK = YK


def ep_moment(d, mname):
    import fairlearn.reductions as red
    args = ["X", "y", "sf", "cf"]
    kinds = {"X": XK, "y": YK, "sf": SK, "cf": SK}
    base = {"X": "ndarray", "y": "list", "sf": "list", "cf": "list"}
    n = len(d["y"])
    h = np.array([(0.25 + 0.5 * ((3 * i) % 4) / 3) for i in range(n)])

    def call(k):
        m = getattr(red, mname)(ratio_bound=0.8)
        m.load_data(_wrapX(d["x"], k["X"]), wrap_vec(d["y"], k["y"], "yy"), sensitive_features=wrap_vec(d["a"], k["sf"], "aa"),
                    control_features=wrap_vec(d["c"], k["cf"], "cc"))
        g = m.gamma(lambda X_: h)
        lam = pd.Series([0.5 + 0.25 * j for j in range(len(m.index))], index=m.index)
        w = m.signed_weights(lam)
        return [sorted((str(_lab(tuple(i))), round(float(v), 12)) for i, v in g.items()), [round(float(v), 12) for v in np.asarray(w)]]
    return args, kinds, base, call


def ep_eg(d):
    import fairlearn.reductions as red

    from mc.stubs import ExactLearner
    args = ["X", "y", "sf"]
    kinds = {"X": XK, "y": YK, "sf": SK}
    base = {"X": "ndarray", "y": "list", "sf": "list"}

    def call(k):
        eg = red.ExponentiatedGradient(ExactLearner(), red.DemographicParity(difference_bound=0.1), eps=0.1, max_iter=5)
        eg.fit(_wrapX(d["x"], k["X"]), wrap_vec(d["y"], k["y"], "yy"), sensitive_features=wrap_vec(d["a"], k["sf"], "aa"))
        return [np.round(np.asarray(eg._pmf_predict(np.array([[0.0], [1.0], [2.0]])), float), 9).tolist(), round(float(eg.best_gap_), 9)]
    return args, kinds, base, call


def ep_gs(d):
    import fairlearn.reductions as red

    from mc.stubs import ExactLearner
    args = ["X", "y", "sf"]
    kinds = {"X": XK, "y": YK, "sf": SK}
    base = {"X": "ndarray", "y": "list", "sf": "list"}

    def call(k):
        g = red.GridSearch(ExactLearner(), red.EqualizedOdds(), grid_size=5)
        g.fit(_wrapX(d["x"], k["X"]), wrap_vec(d["y"], k["y"], "yy"), sensitive_features=wrap_vec(d["a"], k["sf"], "aa"))
        return [int(g.best_idx_), np.round(np.asarray(g.objectives_, float), 12).tolist(),
                sorted((str(_lab(tuple(i))), round(float(v), 12)) for i, v in g.gammas_[g.gammas_.columns[g.best_idx_]].items()),
                np.asarray(g.predict(np.array([[0.0], [1.0], [2.0]]))).tolist()]
    return args, kinds, base, call


def ep_to(d, cons):
    from fairlearn.postprocessing import ThresholdOptimizer

    from mc.stubs import prefit_score
    args = ["X", "y", "sf", "Xp", "sfp"]
    kinds = {"X": XK, "y": YK, "sf": SK, "Xp": XK, "sfp": SK}
    base = {"X": "ndarray", "y": "list", "sf": "list", "Xp": "ndarray", "sfp": "list"}
    scores = [0.2 + 0.1 * v + 0.05 * i for i, v in enumerate(d["x"])]
    # every group needs both labels: use group = parity of position blocks
    grp = ["g%d" % (i % 2) for i in range(len(d["y"]))]
    yy = list(d["y"])
    for gname in ("g0", "g1"):
        idx = [i for i in range(len(yy)) if grp[i] == gname]
        if len({yy[i] for i in idx}) < 2:
            yy[idx[0]] = 1 - yy[idx[0]]

    def call(k):
        t = ThresholdOptimizer(estimator=prefit_score(), constraints=cons, objective="accuracy_score" if cons != "demographic_parity" else "selection_rate" if False else "accuracy_score",
                               prefit=True, predict_method="predict", grid_size=7, flip=True)
        t.fit(_wrapX(scores, k["X"]), wrap_vec(yy, k["y"], "yy"), sensitive_features=wrap_vec(grp, k["sf"], "gg"))
        pm = t._pmf_predict(_wrapX(scores, k["Xp"]), sensitive_features=wrap_vec(grp, k["sfp"], "gg"))
        pr = t.predict(_wrapX(scores, k["Xp"]), sensitive_features=wrap_vec(grp, k["sfp"], "gg"), random_state=3)
        return [np.round(np.asarray(pm, float), 9).tolist(), np.asarray(pr).tolist()]
    return args, kinds, base, call


ENTRY = [("metricframe", lambda d: ep_metricframe(d, False)), ("metricframe2", lambda d: ep_metricframe(d, True)),
         ("named:demographic_parity_difference", lambda d: ep_named(d, "demographic_parity_difference")),
         ("named:equalized_odds_ratio", lambda d: ep_named(d, "equalized_odds_ratio")),
         ("moment:DemographicParity", lambda d: ep_moment(d, "DemographicParity")), ("moment:TruePositiveRateParity", lambda d: ep_moment(d, "TruePositiveRateParity")),
         ("moment:FalsePositiveRateParity", lambda d: ep_moment(d, "FalsePositiveRateParity")), ("moment:EqualizedOdds", lambda d: ep_moment(d, "EqualizedOdds")),
         ("moment:ErrorRateParity", lambda d: ep_moment(d, "ErrorRateParity")), ("eg", ep_eg), ("gridsearch", ep_gs),
         ("to:demographic_parity", lambda d: ep_to(d, "demographic_parity")), ("to:equalized_odds", lambda d: ep_to(d, "equalized_odds")),
         ("to:true_positive_rate_parity", lambda d: ep_to(d, "true_positive_rate_parity")), ("to:false_negative_rate_parity", lambda d: ep_to(d, "false_negative_rate_parity")),
         ("to:false_positive_rate_parity", lambda d: ep_to(d, "false_positive_rate_parity")), ("to:true_negative_rate_parity", lambda d: ep_to(d, "true_negative_rate_parity"))]


def bounds(tier, seed):
    return {"vector_kinds": VEC_KINDS, "feature_kinds": FEAT_KINDS_1 + FEAT_KINDS_2, "deviations": "<= 2 arguments (quick); full product over %r (thorough)" % REDUCED,
            "entry_points": [e[0] for e in ENTRY], "datasets": len(DATA), "row_order_n": 3, "row_order_groups": 2 if tier == "quick" else 3}


def cases(tier, seed):
    for ei, (ename, _) in enumerate(ENTRY):
        heavy = ename in ("eg", "gridsearch") or ename.startswith("to:")
        for di in range(len(DATA) if not heavy else (1 if tier == "quick" else 2)):
            args, kinds, base, _ = ENTRY[ei][1](DATA[di])
            # one deviation
            for a in args:
                for k in kinds[a]:
                    if k != base[a]:
                        yield {"kind": "cont", "entry": ei, "data": di, "dev": {a: k}}
            # two deviations (quick: reduced kind list for the second argument of heavy entry points)
            for a1, a2 in itertools.combinations(args, 2):
                k1s = [k for k in kinds[a1] if k != base[a1]]
                k2s = [k for k in kinds[a2] if k != base[a2]]
                if heavy or tier == "quick":
                    k1s = [k for k in k1s if k in REDUCED + ["df", "dict", "ndarray2d", "df_shuffled", "series_str"]]
                    k2s = [k for k in k2s if k in REDUCED + ["df", "dict", "ndarray2d", "df_shuffled", "series_str"]]
                for k1 in k1s:
                    for k2 in k2s:
                        yield {"kind": "cont", "entry": ei, "data": di, "dev": {a1: k1, a2: k2}}
            if tier != "quick" and not heavy:
                for combo in itertools.product(*[[k for k in kinds[a] if k in REDUCED + ["dict", "ndarray2d", "df"]] for a in args]):
                    dev = {a: k for a, k in zip(args, combo) if k != base[a]}
                    if len(dev) >= 3:
                        yield {"kind": "cont", "entry": ei, "data": di, "dev": dev}
    # single-row datasets for the metrics entry points
    for ei in (0, 2, 3):
        args, kinds, base, _ = ENTRY[ei][1](DATA[0])
        for a in args:
            for k in kinds[a]:
                yield {"kind": "single", "entry": ei, "dev": {a: k}}
    # row order: every sequence vs its sorted form
    G = 2 if tier == "quick" else 3
    rt = [(y, p, g) for g in "abc"[:G] for y in (0, 1) for p in (0, 1)]
    for n in (2, 3):
        for seq in itertools.product(range(len(rt)), repeat=n):
            if list(seq) != sorted(seq):
                yield {"kind": "order", "rows": [list(rt[i]) for i in seq]}
    # group-label bijections
    for perm in itertools.permutations(range(3)):
        for di in range(len(DATA)):
            yield {"kind": "bijection", "data": di, "perm": list(perm)}


def describe(case):
    d = dict(case)
    if "entry" in d:
        d["entry"] = ENTRY[d["entry"]][0]
    return d


def _cls_for(kinds_used, out):
    for k in kinds_used:
        if "shuffled" in k:
            out["classes"].add("shuffled_index")
        if "dup" in k:
            out["classes"].add("duplicate_index")
        if "str" in k:
            out["classes"].add("string_index")
        if k.startswith("df"):
            out["classes"].add("dataframe_vector")
        if k.startswith("dict"):
            out["classes"].add("dict_features")


_BASE = {}


def run_case(case):
    out = {"evals": 0, "violations": [], "classes": set(), "nontrivial": True}
    V = out["violations"]
    kind = case["kind"]
    if kind in ("cont", "single"):
        ename, mk = ENTRY[case["entry"]]
        fam = ename.split(":")[0].rstrip("2")
        out["classes"].add({"metricframe": "metricframe", "named": "named_metric", "moment": "moment", "eg": "eg", "gridsearch": "gridsearch", "to": "thresholder"}[fam])
        if kind == "single":
            out["classes"].add("single_row")
            d = {k: v[:1] for k, v in DATA[0].items()}
            key = (case["entry"], "single")
        else:
            d = DATA[case["data"]]
            key = (case["entry"], case["data"])
        args, kinds, base, call = mk(d)
        if key not in _BASE:
            _BASE[key] = call(base)
            out["evals"] += 1
        k = dict(base)
        k.update(case["dev"])
        _cls_for(case["dev"].values(), out)
        if len(case["dev"]) >= 2:
            out["classes"].add("two_deviations")
        out["evals"] += 1
        ctx = "%s data=%s containers=%r (baseline %r)" % (ename, "single-row" if kind == "single" else case["data"], case["dev"], {a: base[a] for a in case["dev"]})
        try:
            got = call(k)
        except Exception as e:
            import traceback
            where = traceback.extract_tb(e.__traceback__)[-1]
            V.append(viol("C12:%s:raises-%s:%s" % (ename, type(e).__name__, "+".join("%s=%s" % (a, v.split("_")[0]) for a, v in sorted(case["dev"].items()))),
                          "raised %r at %s:%s while the all-list baseline works (%s)" % (e, where.filename.split("/")[-1], where.name, ctx), "same as baseline", repr(e)))
            out["classes"] = sorted(out["classes"])
            return out
        if got != _BASE[key]:
            V.append(viol("C12:%s:differs:%s" % (ename, "+".join(sorted(case["dev"]))), "result differs from the all-list baseline (%s): %r vs %r" % (ctx, str(got)[:300], str(_BASE[key])[:300]),
                          _BASE[key], got))
        out["outcome"] = [ename, jh(got)]
    elif kind == "order":
        import fairlearn.metrics as fm
        import fairlearn.reductions as red
        out["classes"].add("row_order")
        rows = case["rows"]
        srt = sorted(rows)

        def obs(rs):
            y = [r[0] for r in rs]
            p = [r[1] for r in rs]
            a = [r[2] for r in rs]
            w = [1 + ((3 * r[0] + 2 * r[1] + "abc".index(r[2])) % 3) for r in rs]
            o = []
            for fn in ("demographic_parity_difference", "equalized_odds_difference", "equal_opportunity_ratio", "false_positive_rate_difference"):
                o.append(round(float(getattr(fm, fn)(y, p, sensitive_features=a, sample_weight=w)), 12) if True else None)
            mf = fm.MetricFrame(metrics={"sr": fm.selection_rate, "n": fm.count}, y_true=y, y_pred=p, sensitive_features=a)
            o.append(_obs_frame(mf))
            if len(rs) >= 2:
                m = red.EqualizedOdds(difference_bound=0.1)
                m.load_data(np.zeros((len(rs), 1)), np.array(y), sensitive_features=np.array(a))
                g = m.gamma(lambda X_: np.array(p, float))
                o.append(sorted((str(_lab(tuple(i))), round(float(v), 12)) for i, v in g.items()))
                # loss moment: per-row signed weights must travel with their rows
                bgl = red.BoundedGroupLoss(red.ZeroOneLoss(), upper_bound=0.1)
                bgl.load_data(np.zeros((len(rs), 1)), np.array(y), sensitive_features=np.array(a))
                lam = pd.Series({grp: 0.5 + "abc".index(grp) for grp in sorted(set(a))})
                wv = np.asarray(bgl.signed_weights(lam), float)
                o.append(sorted((str(r), round(float(v), 12)) for r, v in zip(rs, wv)))
                gb = bgl.gamma(lambda X_: np.array(p, float))
                o.append(sorted((str(i), round(float(v), 12)) for i, v in gb.items()))
            return [None if isinstance(v, float) and math.isnan(v) else v for v in o]
        out["evals"] += 2
        a_, b_ = obs(rows), obs(srt)
        if str(a_) != str(b_):
            V.append(viol("C12:row-order", "results change when the rows are reordered: %r gives %r, sorted gives %r" % (rows, str(a_)[:300], str(b_)[:300]), b_, a_))
    else:
        import fairlearn.metrics as fm
        import fairlearn.reductions as red
        out["classes"].add("label_bijection")
        d = DATA[case["data"]]
        src = sorted(set(d["a"]))
        tgt = ["zz", "mm", "aa"]  # order-reversing target labels
        mp = {s: tgt[case["perm"][i]] for i, s in enumerate(src)}
        a2 = [mp[v] for v in d["a"]]
        out["evals"] += 2
        mf1 = fm.MetricFrame(metrics=fm.selection_rate, y_true=d["y"], y_pred=d["p"], sensitive_features=d["a"], sample_params={"sample_weight": d["w"]})
        mf2 = fm.MetricFrame(metrics=fm.selection_rate, y_true=d["y"], y_pred=d["p"], sensitive_features=a2, sample_params={"sample_weight": d["w"]})
        for s in src:
            if abs(float(mf1.by_group[s]) - float(mf2.by_group[mp[s]])) > 1e-12:
                V.append(viol("C12:bijection:metricframe", "by_group[%r]=%r but after renaming by_group[%r]=%r" % (s, float(mf1.by_group[s]), mp[s], float(mf2.by_group[mp[s]]))))
        if set(mf2.by_group.index) != set(mp.values()):
            V.append(viol("C12:bijection:metricframe-index", "index %r after renaming, expected %r" % (list(mf2.by_group.index), sorted(mp.values()))))
        for fn in ("demographic_parity_ratio", "equalized_odds_difference"):
            v1 = float(getattr(fm, fn)(d["y"], d["p"], sensitive_features=d["a"], sample_weight=d["w"]))
            v2 = float(getattr(fm, fn)(d["y"], d["p"], sensitive_features=a2, sample_weight=d["w"]))
            if not (abs(v1 - v2) <= 1e-12 or (math.isnan(v1) and math.isnan(v2))):
                V.append(viol("C12:bijection:%s" % fn, "%s changes from %r to %r when group labels are renamed" % (fn, v1, v2)))
        # control-feature levels renamed by a bijection onto levels that include falsy values (0, "")
        for tgt_c in ([0, 1], ["", "z"], [False, True]):
            cmap = {lv: tgt_c[i] for i, lv in enumerate(sorted(set(d["c"])))}
            c2 = [cmap[v] for v in d["c"]]
            hh = np.array([0.25 + 0.125 * i for i in range(len(d["y"]))])
            for mname in ("DemographicParity", "EqualizedOdds"):
                out["evals"] += 2
                ga = _gam_c(red, mname, d, d["c"], hh)
                gb = _gam_c(red, mname, d, c2, hh)
                ren = {(s_, _ren_event(e, cmap), g): v for (s_, e, g), v in ga.items()}
                if set(ren) != set(gb) or any(abs(ren[k] - gb[k]) > 1e-12 for k in ren):
                    V.append(viol("C12:bijection:control-levels", "%s with control levels renamed %r: gamma index/values are not the renamed ones: %r vs expected %r" % (
                        mname, cmap, sorted(map(str, gb))[:4], sorted(map(str, ren))[:4])))
        h = np.array([0.25 + 0.125 * i for i in range(len(d["y"]))])
        g1 = _gam(red, d, d["a"], h)
        g2 = _gam(red, d, a2, h)
        ren = {(s_, e, mp[g]): v for (s_, e, g), v in g1.items()}
        if set(ren) != set(g2) or any(abs(ren[k] - g2[k]) > 1e-12 for k in ren):
            V.append(viol("C12:bijection:moment", "EqualizedOdds gamma after renaming is not the renamed gamma: %r vs %r" % (sorted(g2.items())[:3], sorted(ren.items())[:3])))
    out["classes"] = sorted(out["classes"])
    return out


def _gam_c(red, mname, d, c, h):
    m = getattr(red, mname)()
    m.load_data(np.zeros((len(c), 1)), np.array(d["y"]), sensitive_features=np.array(d["a"]), control_features=np.array(c))
    return {tuple(i): float(v) for i, v in m.gamma(lambda X_: h).items()}


def _ren_event(e, cmap):
    if not e.startswith("control="):
        return e
    lv, rest = e[len("control="):].split(",", 1)
    return "control=%s,%s" % ({str(k): v for k, v in cmap.items()}[lv], rest)


def _gam(red, d, a, h):
    m = red.EqualizedOdds()
    m.load_data(np.zeros((len(a), 1)), np.array(d["y"]), sensitive_features=np.array(a))
    return {tuple(i): float(v) for i, v in m.gamma(lambda X_: h).items()}


def jh(o):
    from mc.engine import jhash
    return jhash(o)


LEVEL_TEXT = ("For each of 17 entry points, every assignment of container kinds (10 vector kinds with hostile pandas indexes, 6+ feature "
              "kinds) with at most two arguments deviating from the all-list baseline (thorough: the full product over a reduced kind "
              "set) is executed and compared with the baseline result; row-order invariance is decided for every sequence of up to 3 "
              "rows by comparison with its sorted form; all label bijections of three groups are applied. The suite parametrises "
              "containers but always with default indexes and never mixes index labels across arguments.")
LEVEL_NOTE = "Differential oracle between two executions of the implementation on the same data; level names are not compared."
TECHNIQUE = "deviation-bounded exhaustive enumeration of container/index/order configurations with a differential oracle on the real code"
