"""C11 - sample weights mean multiplicity."""
import itertools
import math

import numpy as np

from mc.engine import close, viol

PROPERTY = "C11"
LEVEL = "exploration"
CHUNK = 2
RULE = ("all multisets of rows (y, y_pred, group<=3 letters) up to n rows x all integer weight vectors over {1,2}(,3)^n; "
        "metamorphic oracle on the real functions: f(rows,w) == f(rows with row i repeated w_i times) == f(rows, c*w) for "
        "c in the scaling palette, and f(rows,None) == f(rows, ones); compared for the 4 rates, selection_rate, "
        "mean_prediction, MetricFrame (bare and dict, with and without a control feature; every by_group cell and overall) "
        "and the named / generated fairness functions. non-trivial = non-uniform weights exist for the multiset (n>=2) or a "
        "single weighted row; distinct = distinct multisets")
ASSUMPTIONS = ["weights are positive integers from {1,2,3}; scalings from a 3-value palette selected by VERIF_SEED"]
CLASSES = ["single_weighted_row_group", "n1", "control_feature", "weight3"]

SCALES = [(2.0, 0.5, 3.7), (4.0, 0.25, 1.3), (3.0, 0.125, 7.1), (5.0, 0.75, 2.9)]


def bounds(tier, seed):
    return {"n_max": 3 if tier == "quick" else 4, "groups": "3 letters (quick: 2 letters at n=3)", "weights_frames": "{1,2}^n quick, {1,2,3}^n thorough (n<=3), {1,2}^4",
            "weights_base_functions": "{1,2,3}^n", "scalings": list(SCALES[seed % 4])}


def cases(tier, seed):
    rowtypes = [(y, p, g) for g in "abc" for y in (0, 1) for p in (0, 1)]
    nmax = 3 if tier == "quick" else 4
    for n in range(1, nmax + 1):
        for ms in itertools.combinations_with_replacement(range(len(rowtypes)), n):
            if tier == "quick" and n == 3 and any(rowtypes[i][2] == "c" for i in ms):
                continue  # quick: three groups only up to n=2
            yield {"rows": [list(rowtypes[i]) for i in ms], "tier": tier, "seed": seed}


def _flat(obj):
    """Flatten a scalar / Series / DataFrame into {label: float}."""
    import pandas as pd

    if isinstance(obj, pd.DataFrame):
        return {(str(i), str(c)): obj.loc[i, c] for i in obj.index for c in obj.columns}
    if isinstance(obj, pd.Series):
        return {str(i): obj[i] for i in obj.index}
    return {"": obj}


def _same(a, b):
    fa, fb = _flat(a), _flat(b)
    if set(fa) != set(fb):
        return False
    for k in fa:
        x, y = fa[k], fb[k]
        if np.ndim(x) != 0 or np.ndim(y) != 0:
            return False
        if not close(x, y, 1e-12):
            return False
    return True


def run_case(case):
    import fairlearn.metrics as fm
    from fairlearn.metrics import MetricFrame

    rows = case["rows"]
    tier = case["tier"]
    n = len(rows)
    y = np.array([r[0] for r in rows])
    p = np.array([r[1] for r in rows])
    g = np.array([r[2] for r in rows])
    ctrl = np.array(["u" if r[0] == r[1] else "v" for r in rows])
    pr = np.array([0.25 + 0.5 * r[1] + 0.125 * "abc".index(r[2]) for r in rows])
    scales = SCALES[case["seed"] % 4]
    out = {"evals": 0, "violations": [], "classes": set(), "nontrivial": True}
    V = out["violations"]
    if n == 1:
        out["classes"].add("n1")
    BASE = ["true_positive_rate", "false_positive_rate", "true_negative_rate", "false_negative_rate", "selection_rate"]
    NAMED = ["demographic_parity_difference", "equalized_odds_difference", "equal_opportunity_ratio"]
    if tier != "quick":
        NAMED += ["demographic_parity_ratio", "equalized_odds_ratio", "equal_opportunity_difference",
                  "selection_rate_difference", "false_negative_rate_ratio", "accuracy_score_group_min", "zero_one_loss_difference"]

    def bad(sig, what, w, a, b):
        V.append(viol(sig, "%s: weighted=%r vs other=%r rows=%r w=%r" % (what, a, b, rows, list(map(int, w)) if w is not None else None),
                      repr(b), repr(a),
                      "rows=%r; w=%r  # compare f(rows, sample_weight=w) with f(rows repeated w_i times)" % (rows, list(map(int, w)) if w is not None else None)))

    wfull = list(itertools.product((1, 2, 3), repeat=n))
    if tier == "quick" or n == 4:
        wframes = set(itertools.product((1, 2), repeat=n))
    else:
        wframes = set(wfull)
    outcome = []
    for w in wfull:
        w = np.array(w)
        rep = np.repeat(np.arange(n), w)
        yr, p_r, gr, cr, prr = y[rep], p[rep], g[rep], ctrl[rep], pr[rep]
        if 3 in w:
            out["classes"].add("weight3")
        for l in set(g):
            if (g == l).sum() == 1 and w[g == l][0] > 1:
                out["classes"].add("single_weighted_row_group")
        # cheap base functions
        for name in BASE:
            f = getattr(fm, name)
            out["evals"] += 3
            a = f(y, p, sample_weight=w)
            b = f(yr, p_r)
            if np.ndim(a) != 0 or not close(a, b, 1e-12):
                bad("C11:%s:multiplicity" % name, name, w, a, b)
            for c in scales:
                a2 = f(y, p, sample_weight=c * w)
                if np.ndim(a2) != 0 or not close(a, a2, 1e-12):
                    bad("C11:%s:scaling" % name, "%s scaled by %r" % (name, c), w, a, a2)
        out["evals"] += 2
        a = fm.mean_prediction(y, pr, sample_weight=w)
        b = fm.mean_prediction(yr, prr)
        if np.ndim(a) != 0 or not close(a, b, 1e-12):
            bad("C11:mean_prediction:multiplicity", "mean_prediction", w, a, b)
        a2 = fm.mean_prediction(y, pr, sample_weight=scales[2] * w)
        if not close(a, a2, 1e-12):
            bad("C11:mean_prediction:scaling", "mean_prediction scaled", w, a, a2)
        if tuple(w) not in wframes:
            continue
        do_scale = tier != "quick" or (w[-1] == 2 and all(w[:-1] == 1))
        # fairness functions
        for name in NAMED:
            f = getattr(fm, name)
            out["evals"] += 3
            try:
                a = f(y, p, sensitive_features=g, sample_weight=w)
                b = f(yr, p_r, sensitive_features=gr)
                a2 = f(y, p, sensitive_features=g, sample_weight=scales[0] * w) if do_scale else a
            except Exception as e:
                V.append(viol("C11:%s:raises-%s" % (name, type(e).__name__), "%s raised %r rows=%r w=%r" % (name, e, rows, w.tolist())))
                continue
            if not close(a, b, 1e-12):
                bad("C11:%s:multiplicity" % name, name, w, a, b)
            if not close(a, a2, 1e-12):
                bad("C11:%s:scaling" % name, name, w, a, a2)
        # MetricFrame: dict form with control feature; bare form without
        out["classes"].add("control_feature")
        metrics = {"sr": fm.selection_rate, "tpr": fm.true_positive_rate, "mp": fm.mean_prediction}
        for form in ("dict_control", "bare"):
            out["evals"] += 3
            try:
                if form == "dict_control":
                    mk = lambda yy, pp, gg, cc, sw: MetricFrame(  # noqa: E731
                        metrics=metrics, y_true=yy, y_pred=pp, sensitive_features={"g": gg}, control_features={"c": cc},
                        sample_params=None if sw is None else {k: {"sample_weight": sw} for k in metrics})
                else:
                    mk = lambda yy, pp, gg, cc, sw: MetricFrame(  # noqa: E731
                        metrics=fm.selection_rate, y_true=yy, y_pred=pp, sensitive_features=gg,
                        sample_params=None if sw is None else {"sample_weight": sw})
                A = mk(y, p, g, ctrl, w)
                B = mk(yr, p_r, gr, cr, None)
                C = mk(y, p, g, ctrl, scales[1] * w) if do_scale else A
            except Exception as e:
                V.append(viol("C11:MetricFrame-%s:raises-%s" % (form, type(e).__name__), "MetricFrame raised %r rows=%r w=%r" % (e, rows, w.tolist())))
                continue
            for attr in ("by_group", "overall"):
                if not _same(getattr(A, attr), getattr(B, attr)):
                    bad("C11:MetricFrame-%s:%s-multiplicity" % (form, attr), "MetricFrame(%s).%s" % (form, attr), w,
                        _flat(getattr(A, attr)), _flat(getattr(B, attr)))
                if not _same(getattr(A, attr), getattr(C, attr)):
                    bad("C11:MetricFrame-%s:%s-scaling" % (form, attr), "MetricFrame(%s).%s" % (form, attr), w,
                        _flat(getattr(A, attr)), _flat(getattr(C, attr)))
            if not _same(A.difference(method="to_overall"), B.difference(method="to_overall")):
                bad("C11:MetricFrame-%s:difference-multiplicity" % form, "difference(to_overall)", w,
                    _flat(A.difference(method="to_overall")), _flat(B.difference(method="to_overall")))
            if all(w == 1):
                # omitting the weights == all ones
                out["evals"] += 1
                N = mk(y, p, g, ctrl, None)
                if not _same(A.by_group, N.by_group) or not _same(A.overall, N.overall):
                    bad("C11:MetricFrame-%s:ones!=none" % form, "ones vs None", w, _flat(A.by_group), _flat(N.by_group))
        if all(w == 1):
            for name in BASE:
                f = getattr(fm, name)
                a, b = f(y, p, sample_weight=w), f(y, p)
                if not close(a, b, 0):
                    bad("C11:%s:ones!=none" % name, name, w, a, b)
            for name in NAMED:
                f = getattr(fm, name)
                a, b = f(y, p, sensitive_features=g, sample_weight=w), f(y, p, sensitive_features=g)
                if not close(a, b, 0):
                    bad("C11:%s:ones!=none" % name, name, w, a, b)
            outcome.append([float(fm.selection_rate(y, p)), float(fm.true_positive_rate(y, p))])
    out["outcome"] = outcome
    out["classes"] = sorted(out["classes"])
    return out


def describe(case):
    return {"rows(y,y_pred,group)": case["rows"], "then": "x integer weight vectors x (repeat | scale | ones) relations"}


LEVEL_TEXT = ("For every multiset of up to 3 (4) rows and every integer weight vector over {1,2,3}, the weighted call, the call on "
              "physically repeated rows, the call with rescaled weights and (for unit weights) the unweighted call are executed on "
              "the real functions and compared cell by cell. A differential, exhaustive small-scope check needs no hand-written "
              "expected values and reaches the single-weighted-row groups the suite never builds.")
LEVEL_NOTE = "Differential oracle between two executions of the implementation; a defect symmetric in both sides (e.g. weights ignored everywhere) is caught by C03/C14 instead."
TECHNIQUE = "bounded-exhaustive enumeration with a metamorphic (differential) oracle on the real code"
