"""Shared exploration pass for C04 (parity on the training data) and C05 (optimality on the grid)."""
import itertools
import math

import numpy as np

from mc.engine import viol
from mc.ref.threshold import M, OBJ_EO, OBJ_SIMPLE, SIMPLE, env, points

SCORE_PALETTES = [(1.0, 2.0, 3.0), (0.1, 0.5, 0.9), (-1.0, 0.0, 2.5), (0.25, 0.5, 0.75)]
CONSTRAINTS = ["demographic_parity", "false_positive_rate_parity", "true_positive_rate_parity",
               "false_negative_rate_parity", "true_negative_rate_parity", "equalized_odds"]


def group_types(levels, sizes):
    rows = [(l, s) for l in (0, 1) for s in range(levels)]
    out = []
    for n in sizes:
        for ms in itertools.combinations_with_replacement(rows, n):
            if {l for l, _ in ms} == {0, 1}:
                out.append([list(r) for r in ms])
    return out


def config_list(grids, objectives="all"):
    out = []
    for c in CONSTRAINTS:
        objs = OBJ_EO if c == "equalized_odds" else OBJ_SIMPLE
        if objectives == "first":
            objs = objs[:1]
        for obj in objs:
            for flip in (False, True):
                for gs in grids:
                    out.append([c, obj, flip, gs])
    return out


def cases(tier, seed):
    G23 = group_types(3, (2, 3))
    G2 = [g for g in G23 if len(g) == 2]
    G3 = [g for g in G23 if len(g) == 3]
    if tier == "quick":
        full = config_list([1, 2, 7])
        small = config_list([3], "first")
        for ga, gb in itertools.combinations_with_replacement(G2, 2):
            yield {"groups": [ga, gb], "configs": "full", "seed": seed, "tier": tier}
        for ga in G2:
            for gb in G3:
                yield {"groups": [ga, gb], "configs": "full", "seed": seed, "tier": tier}
        for ga, gb in itertools.combinations_with_replacement(G3, 2):
            yield {"groups": [ga, gb], "configs": "small", "seed": seed, "tier": tier}
        for tri in itertools.combinations_with_replacement(G2, 3):
            yield {"groups": list(tri), "configs": "small3", "seed": seed, "tier": tier}
        # an estimator whose predict_proba / decision_function / predict disagree, with every explicit predict_method
        for ga, gb in itertools.combinations_with_replacement(G2, 2):
            yield {"groups": [ga, gb], "configs": "small", "seed": seed, "tier": tier, "methods": True}
        # near-ties: distinct scores 2e-6 apart must be treated as distinct thresholds
        for ga, gb in itertools.combinations_with_replacement(G2 + G3[::4], 2):
            yield {"groups": [ga, gb], "configs": "small", "seed": seed, "tier": tier, "near": True}
        # three distinct scores within ~1e-5 of each other (a tolerance-based tie test lumps two of them but not the third)
        for ga, gb in itertools.combinations_with_replacement(G3, 2):
            yield {"groups": [ga, gb], "configs": "small", "seed": seed, "tier": tier, "near": 2}
    else:
        for ga, gb in itertools.combinations_with_replacement(G2 + G3[::2], 2):
            yield {"groups": [ga, gb], "configs": "small3", "seed": seed, "tier": tier, "methods": True}
        for ga, gb in itertools.combinations_with_replacement(G23, 2):
            yield {"groups": [ga, gb], "configs": "small3", "seed": seed, "tier": tier, "near": 2}
        for ga, gb in itertools.combinations_with_replacement(G23, 2):
            yield {"groups": [ga, gb], "configs": "small3", "seed": seed, "tier": tier, "near": True}
        for ga, gb in itertools.combinations_with_replacement(G23, 2):
            yield {"groups": [ga, gb], "configs": "full", "seed": seed, "tier": tier}
        for tri in itertools.combinations_with_replacement(G2, 3):
            yield {"groups": list(tri), "configs": "full3", "seed": seed, "tier": tier}
        G4 = [g for g in group_types(3, (4,))]
        for ga in G4:
            for gb in G2 + G3[::3]:
                yield {"groups": [ga, gb], "configs": "small", "seed": seed, "tier": tier}
        for quad in itertools.combinations_with_replacement(G2, 4):
            yield {"groups": list(quad), "configs": "small3", "seed": seed, "tier": tier}
        for five in itertools.combinations_with_replacement(G2[:5], 5):
            yield {"groups": list(five), "configs": "small3", "seed": seed, "tier": tier}
        G4lev = [g for g in group_types(4, (2, 3)) if any(s == 3 for _, s in g)]
        for ga, gb in itertools.combinations_with_replacement(G4lev[::2], 2):
            yield {"groups": [ga, gb], "configs": "small4", "seed": seed, "tier": tier, "levels": 4}


def configs_for(case):
    k, tier = case["configs"], case["tier"]
    if k == "full":
        return config_list([1, 2, 7] if tier == "quick" else [1, 2, 3, 4, 7, 10])
    if k == "full3":
        return config_list([1, 2, 3, 7])
    if k == "small":
        return config_list([3] if tier == "quick" else [3, 1000], "first")
    if k == "small3":
        return config_list([1, 3], "first")
    if k == "small4":
        return config_list([2, 5], "first")
    raise KeyError(k)


def bounds(tier, seed):
    return {"score_levels": list(SCORE_PALETTES[seed % 4]), "group_sizes": "2..3 (thorough: +4)",
            "groups": "2 and 3 (thorough: up to 5)",
            "grid_sizes": [1, 2, 3, 7] if tier == "quick" else [1, 2, 3, 4, 7, 10, 1000],
            "constraint_objective_pairs": 27, "flip": [False, True]}


def dataset(case):
    pal = SCORE_PALETTES[case["seed"] % 4]
    if case.get("near") == 2:
        pal = (0.69999, 0.699994, 0.7)
    elif case.get("near"):
        pal = (pal[0], pal[0] + 2e-6 * max(1.0, abs(pal[0])), pal[2])
    if case.get("levels") == 4:
        pal = tuple(pal) + (pal[2] + (pal[2] - pal[1]) * 0.5,)
    y, s, a = [], [], []
    for gi, g in enumerate(case["groups"]):
        for l, lev in g:
            y.append(l)
            s.append(pal[lev])
            a.append("abcde"[gi])
    return y, s, a


def describe(case):
    y, s, a = dataset(case)
    return {"y": y, "score": s, "group": a, "configs": "%s (%d)" % (case["configs"], len(configs_for(case)))}


def run_case(case, which):
    """which in {'C04','C05'}: report only that property's oracle."""
    from fairlearn.postprocessing import ThresholdOptimizer

    from mc.stubs import prefit_score

    y, s, a = dataset(case)
    n = len(y)
    X = np.array(s).reshape(-1, 1)
    labels = sorted(set(a))
    idx = {g: [i for i in range(n) if a[i] == g] for g in labels}
    out = {"evals": 0, "violations": [], "classes": set(), "nontrivial": True}
    V = out["violations"]
    for g in labels:
        sg = [s[i] for i in idx[g]]
        if len(set(sg)) < len(sg):
            out["classes"].add("score_ties")
        if len(set(sg)) == 1:
            out["classes"].add("all_scores_equal_in_group")
    if len(labels) >= 3:
        out["classes"].add("three_or_more_groups")
    if case.get("near"):
        out["classes"].add("near_tie_scores")
    est = prefit_score()
    outcome = []
    pts_cache = {}
    if case.get("methods"):
        return _run_methods(case, which, y, s, a, labels, idx, out)
    for c, obj, flip, gs in configs_for(case):
        out["evals"] += 1
        if gs == 1:
            out["classes"].add("grid_size_1")
        ctx = "constraints=%s objective=%s flip=%s grid_size=%d y=%r scores=%r groups=%r" % (c, obj, flip, gs, y, s, a)
        snip = ("import numpy as np; from fairlearn.postprocessing import ThresholdOptimizer; from mc.stubs import prefit_score; "
                "y=%r; s=%r; a=%r; X=np.array(s).reshape(-1,1); t=ThresholdOptimizer(estimator=prefit_score(), constraints=%r, objective=%r, "
                "prefit=True, predict_method='predict', grid_size=%d, flip=%r).fit(X, y, sensitive_features=a); "
                "print(t._pmf_predict(X, sensitive_features=a)[:,1])" % (y, s, a, c, obj, gs, flip))
        try:
            t_ = ThresholdOptimizer(estimator=est, constraints=c, objective=obj, prefit=True, predict_method="predict",
                                    grid_size=gs, flip=flip).fit(X, y, sensitive_features=a)
            p = t_._pmf_predict(X, sensitive_features=a)[:, 1]
            idict = t_.interpolated_thresholder_.interpolation_dict
        except Exception as e:
            V.append(viol("%s:fit:raises-%s" % (which, type(e).__name__), "fit/_pmf_predict raised %r (%s)" % (e, ctx), None, repr(e), snip))
            continue
        p = [float(v) for v in p]
        for g, b in idict.items():
            if b.get("p_ignore", 0) > 0:
                out["classes"].add("p_ignore_positive")
            if flip and ("<" in str(b.operation0) or "<" in str(b.operation1)):
                out["classes"].add("flip_used")
            if 0 < b.p0 < 1:
                out["classes"].add("randomised_between_thresholds")
        finite = all(math.isfinite(v) and -1e-12 <= v <= 1 + 1e-12 for v in p)
        if which == "C04":
            if not finite:
                V.append(viol("C04:pmf:out-of-range", "probabilities %r not finite in [0,1] (%s)" % (p, ctx), None, p, snip))
                continue
            names = ["false_positive_rate", "true_positive_rate"] if c == "equalized_odds" else [SIMPLE[c]]
            for nm in names:
                vals = [M(nm, [y[i] for i in idx[g]], [p[i] for i in idx[g]]) for g in labels]
                if max(vals) - min(vals) > 1e-9:
                    V.append(viol("C04:%s:disparity" % c, "%s per group = %r differ by %.3g (%s)" % (nm, vals, max(vals) - min(vals), ctx),
                                  "equal", vals, snip))
            outcome.append([round(v, 9) for v in p])
        else:
            if not finite:
                continue
            if c != "equalized_odds":
                xm = SIMPLE[c]
                ach = sum(len(idx[g]) / n * M(obj, [y[i] for i in idx[g]], [p[i] for i in idx[g]]) for g in labels)
                P = {}
                for g in labels:
                    key = (g, flip, xm, obj)
                    if key not in pts_cache:
                        pts_cache[key] = points([y[i] for i in idx[g]], [s[i] for i in idx[g]], flip, xm, obj)
                    P[g] = pts_cache[key]
                grid = [i / gs for i in range(gs + 1)]
                ref = max(sum(len(idx[g]) / n * env(P[g], x) for g in labels) for x in grid)
                const = max(sum(len(idx[g]) / n * M(obj, [y[i] for i in idx[g]], [k] * len(idx[g])) for g in labels) for k in (0.0, 1.0))
            else:
                ach = M(obj, y, p)
                P = {}
                for g in labels:
                    key = (g, flip, "roc")
                    if key not in pts_cache:
                        pts_cache[key] = points([y[i] for i in idx[g]], [s[i] for i in idx[g]], flip, "false_positive_rate", "true_positive_rate")
                    P[g] = pts_cache[key]
                npos = sum(y)
                nneg = n - npos
                vals = []
                for i in range(gs + 1):
                    x = i / gs
                    ym = min(env(P[g], x) for g in labels)
                    vals.append((npos * ym + nneg * (1 - x)) / n if obj == "accuracy_score" else 0.5 * ym + 0.5 * (1 - x))
                ref = max(vals)
                const = max(M(obj, y, [k] * n) for k in (0.0, 1.0))
            if abs(ach - ref) > 1e-9:
                V.append(viol("C05:%s:suboptimal" % c if ach < ref else "C05:%s:above-reference" % c,
                              "achieved %s %.12g, best parity-satisfying rule on the grid %.12g (%s)" % (obj, ach, ref, ctx), ref, ach, snip))
            if ach < const - 1e-9:
                V.append(viol("C05:%s:worse-than-constant" % c, "achieved %.12g < best constant classifier %.12g (%s)" % (ach, const, ctx), const, ach, snip))
            outcome.append(round(ach, 9))
    out["outcome"] = outcome
    out["classes"] = sorted(out["classes"])
    return out


def _run_methods(case, which, y, s, a, labels, idx, out):
    """The same oracles with an estimator whose three prediction methods return different scores, for every explicit predict_method."""
    from fairlearn.postprocessing import ThresholdOptimizer

    from mc.stubs import MultiScore

    V = out["violations"]
    n = len(y)
    out["classes"].add("explicit_predict_method")
    lv = sorted(set(s))
    rank = {v: i for i, v in enumerate(lv)}
    # column 0: the palette score (decision_function); column 1: a probability with the REVERSED ordering; column 2: a hard 0/1 label
    col1 = [0.9 - 0.8 * rank[v] / max(1, len(lv) - 1) for v in s]
    col2 = [float((i + yy) % 2) for i, yy in enumerate(y)]
    X = np.array([s, col1, col2], float).T
    scores_of = {"decision_function": list(s), "predict_proba": col1, "predict": col2}
    outcome = []
    # the hard 0/1 labels of `predict` are also returned as bool / int8 arrays (exactly representable, so the
    # oracles are unchanged): the probabilities must not inherit a narrow dtype from the scores (seeded change C04d)
    for method, pdt in (("decision_function", None), ("predict_proba", None), ("predict", None), ("predict", "bool"), ("predict", "int8")):
        est = MultiScore(predict_dtype=pdt).fit(None, None)
        sc = scores_of[method]
        if pdt:
            out["classes"].add("narrow_dtype_scores")
        for c, obj, flip, gs in configs_for(case):
            out["evals"] += 1
            ctx = "predict_method=%s%s constraints=%s objective=%s flip=%s grid_size=%d y=%r scores=%r groups=%r" % (method, " (dtype %s)" % pdt if pdt else "", c, obj, flip, gs, y, sc, a)
            try:
                t_ = ThresholdOptimizer(estimator=est, constraints=c, objective=obj, prefit=True, predict_method=method, grid_size=gs, flip=flip).fit(X, y, sensitive_features=a)
                p = [float(v) for v in t_._pmf_predict(X, sensitive_features=a)[:, 1]]
            except Exception as e:
                V.append(viol("%s:predict_method:raises-%s" % (which, type(e).__name__), "fit/_pmf_predict raised %r (%s)" % (e, ctx)))
                continue
            if not all(math.isfinite(v) and -1e-12 <= v <= 1 + 1e-12 for v in p):
                if which == "C04":
                    V.append(viol("C04:pmf:out-of-range", "probabilities %r (%s)" % (p, ctx)))
                continue
            if which == "C04":
                names = ["false_positive_rate", "true_positive_rate"] if c == "equalized_odds" else [SIMPLE[c]]
                for nm in names:
                    vals = [M(nm, [y[i] for i in idx[g]], [p[i] for i in idx[g]]) for g in labels]
                    if max(vals) - min(vals) > 1e-9:
                        V.append(viol("C04:%s:disparity:predict_method" % c, "%s per group = %r (%s)" % (nm, vals, ctx), "equal", vals))
            else:
                if c != "equalized_odds":
                    xm = SIMPLE[c]
                    ach = sum(len(idx[g]) / n * M(obj, [y[i] for i in idx[g]], [p[i] for i in idx[g]]) for g in labels)
                    P = {g: points([y[i] for i in idx[g]], [sc[i] for i in idx[g]], flip, xm, obj) for g in labels}
                    ref = max(sum(len(idx[g]) / n * env(P[g], i_ / gs) for g in labels) for i_ in range(gs + 1))
                else:
                    ach = M(obj, y, p)
                    P = {g: points([y[i] for i in idx[g]], [sc[i] for i in idx[g]], flip, "false_positive_rate", "true_positive_rate") for g in labels}
                    npos = sum(y)
                    vals = []
                    for i_ in range(gs + 1):
                        x = i_ / gs
                        ym = min(env(P[g], x) for g in labels)
                        vals.append((npos * ym + (n - npos) * (1 - x)) / n if obj == "accuracy_score" else 0.5 * ym + 0.5 * (1 - x))
                    ref = max(vals)
                if abs(ach - ref) > 1e-9:
                    V.append(viol("C05:%s:suboptimal:predict_method" % c, "achieved %s %.12g, optimum on the grid %.12g (%s)" % (obj, ach, ref, ctx), ref, ach))
            outcome.append(round(sum(p), 9))
    out["outcome"] = outcome
    out["classes"] = sorted(out["classes"])
    return out
