"""Shared dataset alphabet and loaders for C06 / C07 (constraint moments)."""
import itertools

import numpy as np

from mc.ref.moments import BOUNDS, PARITY

SOFT = [(0.25, 0.75, 0.5, 1.0, 0.0, 0.125), (0.5, 0.125, 0.875, 0.25, 1.0, 0.0), (0.75, 0.25, 0.0, 0.5, 0.375, 1.0),
        (0.125, 0.5, 1.0, 0.0, 0.625, 0.25)]


def cases(tier, seed, light=False):
    """Sorted sequences (multisets) of rows (label, group, stratum)."""
    def ms(G, S, nmax, nmin=2):  # n=1 is outside the statement (2..4 groups) and load_data cannot take it
        # control-feature levels deliberately include a FALSY one: integer 0 (even VERIF_SEED) or the empty string (odd)
        strata = [None] if S == 0 else ([0, 1, 2][:S] if seed % 2 == 0 else ["", "v", "w"][:S])
        rt = [(y, g, s) for s in strata for g in "abcd"[:G] for y in (0, 1)]
        for n in range(nmin, nmax + 1):
            for m in itertools.combinations_with_replacement(range(len(rt)), n):
                yield {"rows": [list(rt[i]) for i in m], "tier": tier, "seed": seed}
    if tier == "quick":
        yield from ms(3, 0, 4)
        yield from ms(3, 2, 3)
    elif light:  # C07 (all 2^n hard predictors x lambda grid per dataset): a smaller thorough space that still completes
        yield from ms(3, 0, 5)
        yield from ms(4, 0, 4)
        yield from ms(3, 2, 4)
        yield from ms(2, 3, 3)
    else:
        yield from ms(3, 0, 6)
        yield from ms(4, 0, 5)
        yield from ms(3, 2, 4)
        yield from ms(2, 2, 5, 5)
        yield from ms(2, 3, 4)
        yield from ms(4, 1, 4)


def bounds(tier, seed):
    return {"rows": "(label, group, stratum) multisets", "quick": "G<=3 n<=4 no strata; G<=3 2 strata n<=3",
            "thorough": "G<=3 n<=6; G=4 n<=5; G<=3 2 strata n<=4; G=2 2 strata n=5; G=2 3 strata n<=4; G=4 1 stratum n<=4",
            "bounds": BOUNDS if tier != "quick" else [BOUNDS[0], BOUNDS[3], BOUNDS[4]], "moments": PARITY + ["BoundedGroupLoss", "ErrorRate"],
            "soft_palette": list(SOFT[seed % 4])}


def data(case):
    rows = case["rows"]
    y = [r[0] for r in rows]
    a = [r[1] for r in rows]
    c = None if rows[0][2] is None else [r[2] for r in rows]
    return y, a, c


def bound_specs(tier):
    return BOUNDS if tier != "quick" else [BOUNDS[0], BOUNDS[3], BOUNDS[4]]


def predictors(n, seed):
    """unit predictors e_i, all-zero, all-one and one soft palette vector."""
    out = [("zero", [0.0] * n), ("one", [1.0] * n)]
    for i in range(n):
        out.append(("e%d" % i, [1.0 if j == i else 0.0 for j in range(n)]))
    out.append(("soft", list(SOFT[seed % 4][:n])))
    return out


def load(name, spec, y, a, c):
    import fairlearn.reductions as red

    from mc.ref.moments import make_bound

    m, ratio, slack = make_bound(getattr(red, name), spec)
    X = np.arange(len(y)).reshape(-1, 1)
    kw = {} if c is None else {"control_features": np.array(c)}
    m.load_data(X, np.array(y), sensitive_features=np.array(a), **kw)
    return m, ratio, slack


def as_pred(h):
    h = np.asarray(h, float)
    return lambda X: h[np.asarray(X)[:, 0].astype(int)]


def describe(case):
    return {"rows(label,group,stratum)": case["rows"]}
