"""C19 - estimator life cycle: fit depends on parameters and data, not on call history (model_checking)."""
import itertools
import pickle

import numpy as np

from mc.engine import jhash, viol

PROPERTY = "C19"
LEVEL = "model_checking"
CHUNK = 4
NONDETERMINISM_IS_VIOLATION = True
RULE = ("state graph: nodes = canonical fingerprints of an estimator (constructor parameters rendered structurally, fitted?, prediction "
        "fingerprint on a fixed probe set with a fixed seed); edges = operations {fit(D1), fit(D2), predict(seed), pickle round trip, "
        "sklearn clone} applied to the live object. ALL histories up to the length bound are executed from a fresh estimator, per "
        "configuration: ThresholdOptimizer (2 constraints, prefit=False), ExponentiatedGradient (DP, EO; nu None / explicit), "
        "GridSearch (DP, BGL), CorrelationRemover (1, 2 sensitive columns), AdversarialFairnessClassifier/Regressor (torch, "
        "warm_start=False). Differential oracle: the fingerprint after any history ending in fit(D) equals that of a fresh estimator "
        "after fit(D) alone; fit returns the object itself; get_params equals the constructor arguments at every node; predict edges "
        "are self-loops; pickle preserves predictions (not required for adversarial); clone gives an unfitted estimator with equal "
        "parameters. states = distinct fingerprints; transitions = operations applied; traces = histories executed")
ASSUMPTIONS = ["D1 and D2 share the schema (columns, label set); predict-before-fit is left to C20",
               "histories of length <= 3 (quick) / 4 (thorough) over 5 operations"]
CLASSES = ["refit_same_data", "refit_other_data", "fit_after_clone", "fit_after_pickle", "predict_between_fits", "pickle_fitted", "clone_fitted",
           "adversarial", "reductions", "postprocessing", "preprocessing"]
OPS = ["fit1", "fit2", "predict", "pickle", "clone"]

X1 = [[0.0], [1.0], [2.0], [1.0], [0.0], [1.0], [2.0], [0.0]]
Y1 = [0, 0, 1, 1, 0, 1, 0, 1]
A1 = list("aaaabbbb")
X2 = [[2.0], [1.0], [2.0], [0.0], [0.0], [1.0], [1.0], [2.0]]
Y2 = [0, 0, 1, 1, 1, 0, 1, 0]  # chosen so that the base learner fitted on D2 differs from the one fitted on D1
A2 = list("abababab")
PX = [[0.0], [1.0], [2.0], [0.0], [1.0], [2.0]]
PA = list("aaabbb")
CR1 = [[0.0, 1, 2, 1], [1, 3, 1, 0], [2, 0, 5, 2], [3, 4, 4, 7], [1, 1, 1, 3]]
CR2 = [[3.0, 0, 1, 2], [0, 2, 2, 2], [1, 5, 0, 1], [2, 2, 3, 0], [4, 1, 1, 1]]
AX1 = [[0.0, 1], [1, 0], [1, 1], [0, 0], [2, 1], [1, 2], [2, 2]]
AX2 = [[1.0, 1], [0, 2], [2, 0], [1, 0], [0, 1], [2, 2], [0, 0]]

CONFIGS = ["TO_dp", "TO_eo", "EG_dp", "EG_eo_nu", "EG_bgl", "EG_long", "GS_dp", "GS_bgl", "CR_1", "CR_2", "CR_df", "ADV_clf", "ADV_reg"]


def bounds(tier, seed):
    return {"history_length": 3 if tier == "quick" else 4, "operations": OPS, "configurations": CONFIGS}


def cases(tier, seed):
    L = 3 if tier == "quick" else 4
    for cfg in CONFIGS:
        for n in range(1, L + 1):
            for h in itertools.product(range(len(OPS)), repeat=n):
                if tier == "quick" and cfg.startswith("ADV") and n == 3 and h[0] in (2, 3):
                    continue  # quick: adversarial histories of length 3 start with fit or clone
                yield {"cfg": cfg, "hist": [OPS[i] for i in h]}


def describe(case):
    return case


# ---- configurations ------------------------------------------------------------------------------
def make(cfg):
    import fairlearn.reductions as red
    from fairlearn.postprocessing import ThresholdOptimizer
    from fairlearn.preprocessing import CorrelationRemover

    from mc.stubs import ExactLearner, ExactRegressor

    if cfg == "TO_dp":
        return ThresholdOptimizer(estimator=ExactLearner(), constraints="demographic_parity", predict_method="predict_proba", grid_size=7)
    if cfg == "TO_eo":
        return ThresholdOptimizer(estimator=ExactLearner(), constraints="equalized_odds", predict_method="predict_proba", grid_size=5, flip=True)
    if cfg == "EG_dp":
        return red.ExponentiatedGradient(ExactLearner(), red.DemographicParity(difference_bound=0.1), eps=0.05, max_iter=8)
    if cfg == "EG_eo_nu":
        return red.ExponentiatedGradient(ExactLearner(), red.EqualizedOdds(difference_bound=0.1), eps=0.3, max_iter=6, nu=0.01, eta0=1.5)
    if cfg == "EG_long":  # many iterations without the LP step: reaches the regret check / learning-rate shrink branch
        return red.ExponentiatedGradient(ExactLearner(), red.ErrorRateParity(difference_bound=0.01), eps=0.05, nu=1e-6, max_iter=30, run_linprog_step=False, eta0=2.0)
    if cfg == "EG_bgl":  # regression moment: predict draws one stored predictor per row
        from mc.stubs import MeanRegressor
        return red.ExponentiatedGradient(MeanRegressor(), red.BoundedGroupLoss(red.SquareLoss(0, 1), upper_bound=0.05), eps=0.2, max_iter=10, run_linprog_step=False)
    if cfg == "GS_dp":
        return red.GridSearch(ExactLearner(), red.DemographicParity(), grid_size=5)
    if cfg == "GS_bgl":
        return red.GridSearch(ExactRegressor(), red.BoundedGroupLoss(red.SquareLoss(0, 1), upper_bound=0.1), grid_size=4)
    if cfg == "CR_1":
        return CorrelationRemover(sensitive_feature_ids=[0])
    if cfg == "CR_2":
        return CorrelationRemover(sensitive_feature_ids=[0, 2], alpha=0.5)
    if cfg == "CR_df":  # DataFrame input, sensitive column given by NAME; D2 has the same columns in another order
        return CorrelationRemover(sensitive_feature_ids=["s"])
    from fairlearn.adversarial import AdversarialFairnessClassifier, AdversarialFairnessRegressor
    kw = dict(backend="torch", predictor_model=[3], adversary_model=[2], predictor_optimizer="SGD", adversary_optimizer="SGD", learning_rate=0.2,
              batch_size=3, epochs=2, shuffle=False, random_state=0)
    if cfg == "ADV_clf":
        return AdversarialFairnessClassifier(**kw)
    return AdversarialFairnessRegressor(**kw)


def family(cfg):
    return {"TO": "postprocessing", "EG": "reductions", "GS": "reductions", "CR": "preprocessing", "AD": "adversarial"}[cfg[:2]]


def do_fit(cfg, est, which):
    if cfg == "CR_df":
        import pandas as pd
        return est.fit(pd.DataFrame(CR1, columns=["s", "a", "b", "c"]) if which == 1 else pd.DataFrame(CR2, columns=["a", "b", "s", "c"]))
    if cfg.startswith("CR"):
        return est.fit(np.array(CR1 if which == 1 else CR2))
    if cfg.startswith("ADV"):
        X = np.array(AX1 if which == 1 else AX2)
        y = np.array([0, 1, 1, 0, 1, 0, 1] if which == 1 else [1, 1, 0, 0, 1, 0, 1])
        if cfg == "ADV_reg":
            y = y * 0.37 + np.arange(7) * 0.05
        A = np.array(list("abababa" if which == 1 else "aabbaba"))
        return est.fit(X, y, sensitive_features=A)
    if cfg == "EG_long":  # data on which 30 EG iterations do not converge and the best gap stagnates (found by scanning, see DESIGN section 5)
        rows = [[0, "a", 0], [0, "a", 0], [0, "b", 1], [1, "b", 0], [2, "c", 1]] if which == 1 else [[0, "a", 0], [0, "a", 0], [0, "b", 1], [1, "c", 1], [2, "b", 0]]
        return est.fit(np.array([[r[0]] for r in rows], float), np.array([r[2] for r in rows]), sensitive_features=np.array([r[1] for r in rows]))
    X = np.array(X1 if which == 1 else X2)
    y = np.array(Y1 if which == 1 else Y2)
    if cfg == "GS_bgl":
        y = 0.25 + 0.5 * y
    if cfg == "EG_bgl":
        y = np.array([0.0, 0.5, 1.0, 0.5, 0.0, 1.0, 0.5, 0.0] if which == 1 else [1.0, 0.0, 0.5, 0.5, 1.0, 0.0, 0.0, 0.5])
    A = np.array(A1 if which == 1 else A2)
    return est.fit(X, y, sensitive_features=A)


def predict_fp(cfg, est, seed=7):
    """prediction fingerprint (rounded) + one seeded predict."""
    if cfg.startswith("TO"):
        pm = np.asarray(est._pmf_predict(np.array(PX), sensitive_features=np.array(PA)), float)
        pr = np.asarray(est.predict(np.array(PX), sensitive_features=np.array(PA), random_state=seed))
        return [np.round(pm, 9).tolist(), pr.tolist()]
    if cfg == "EG_bgl":
        pm = np.asarray(est._pmf_predict(np.array(PX)), float)
        prs = [np.round(np.asarray(est.predict(np.array(PX), random_state=sd), float), 9).tolist() for sd in (seed, seed + 1, seed + 2)]
        return [np.round(pm, 9).tolist(), prs]
    if cfg.startswith("EG"):
        pm = np.asarray(est._pmf_predict(np.array(PX)), float)
        pr = np.asarray(est.predict(np.array(PX), random_state=seed))
        return [np.round(pm, 9).tolist(), pr.tolist()]
    if cfg.startswith("GS"):
        return [np.round(np.asarray(est.predict(np.array(PX)), float), 9).tolist()]
    if cfg.startswith("CR"):
        return [np.round(np.asarray(est.transform(np.array(CR2)), float), 9).tolist()]
    P = np.array([[0.0, 0], [1, 1], [2, 0], [0.5, 1.5], [2, 2]])
    return [np.round(np.asarray(est._raw_predict(P), float), 5).tolist(), np.asarray(est.predict(P)).tolist()]


def render(v):
    from sklearn.base import BaseEstimator
    if isinstance(v, BaseEstimator):
        return [type(v).__name__, {k: render(x) for k, x in sorted(v.get_params(deep=False).items())}]
    if isinstance(v, (list, tuple)):
        return [render(x) for x in v]
    if isinstance(v, (int, float, str, bool)) or v is None:
        return v
    return type(v).__name__


def params_fp(est):
    return {k: render(v) for k, v in sorted(est.get_params(deep=False).items())}


def is_fitted(est):
    from sklearn.exceptions import NotFittedError
    from sklearn.utils.validation import check_is_fitted
    try:
        check_is_fitted(est)
        return True
    except NotFittedError:
        return False


_FRESH = {}


def fresh_fp(cfg, which):
    key = (cfg, which)
    if key not in _FRESH:
        e = make(cfg)
        do_fit(cfg, e, which)
        _FRESH[key] = predict_fp(cfg, e)
    return _FRESH[key]


def run_case(case):
    from sklearn.base import clone

    cfg, hist = case["cfg"], case["hist"]
    name = cfg.split("_")[0]
    out = {"evals": 0, "violations": [], "classes": {family(cfg)}, "states": [], "transitions": 0, "traces": 1, "nontrivial": True}
    V = out["violations"]
    est = make(cfg)
    p0 = params_fp(est)
    ctx = "%s history=%r" % (cfg, hist)
    last_fit = None
    prev = None
    out["states"].append(jhash([cfg, "init"]))
    for i, op in enumerate(hist):
        out["transitions"] += 1
        out["evals"] += 1
        fitted_before = is_fitted(est)
        objs_before = {k: v for k, v in est.get_params(deep=False).items() if not (isinstance(v, (int, float, str, bool)) or v is None)}
        est_before = est
        try:
            if op in ("fit1", "fit2"):
                which = 1 if op == "fit1" else 2
                if last_fit is not None:
                    out["classes"].add("refit_same_data" if last_fit == which else "refit_other_data")
                if prev == "clone":
                    out["classes"].add("fit_after_clone")
                if prev == "pickle":
                    out["classes"].add("fit_after_pickle")
                if prev == "predict" and last_fit is not None:
                    out["classes"].add("predict_between_fits")
                r = do_fit(cfg, est, which)
                if r is not est:
                    V.append(viol("C19:%s:fit-does-not-return-self" % name, "fit returned %r instead of the estimator (%s, step %d)" % (type(r).__name__, ctx, i)))
                fp = predict_fp(cfg, est)
                ref = fresh_fp(cfg, which)
                if fp != ref:
                    kind = "first-fit-differs" if last_fit is None else "refit-differs-from-fresh"
                    if name == "EG" and params_fp(est).get("nu") != params_fp(make(cfg)).get("nu"):
                        kind += ":after-nu-overwrite"
                    V.append(viol("C19:%s:%s" % (name, kind), "after %r the model predicts %r, a fresh estimator fitted on the same data predicts %r (%s, step %d)" % (
                        hist[:i + 1], fp, ref, ctx, i), ref, fp))
                last_fit = which
            elif op == "predict":
                if not fitted_before:
                    prev = op
                    continue
                a = predict_fp(cfg, est, seed=11)
                predict_fp(cfg, est, seed=5)
                b = predict_fp(cfg, est, seed=11)
                if a != b:
                    V.append(viol("C19:%s:predict-not-repeatable" % name, "two predictions with the same seed differ (%s, step %d)" % (ctx, i)))
                if predict_fp(cfg, est, seed=11) != a:
                    V.append(viol("C19:%s:predict-alters-state" % name, "prediction fingerprint changed after predict (%s, step %d)" % (ctx, i)))
            elif op == "pickle":
                before = predict_fp(cfg, est) if fitted_before else None
                if fitted_before:
                    out["classes"].add("pickle_fitted")
                try:
                    est2 = pickle.loads(pickle.dumps(est))
                except Exception as e:
                    if not cfg.startswith("ADV"):
                        V.append(viol("C19:%s:pickle-raises-%s" % (name, type(e).__name__), "pickle round trip raised %r (%s, step %d)" % (e, ctx, i)))
                    prev = op
                    continue
                if not cfg.startswith("ADV"):
                    if fitted_before:
                        after = predict_fp(cfg, est2)
                        if after != before:
                            V.append(viol("C19:%s:pickle-changes-predictions" % name, "restored estimator predicts %r, original %r (%s, step %d)" % (after, before, ctx, i)))
                    est = est2
            elif op == "clone":
                if fitted_before:
                    out["classes"].add("clone_fitted")
                c = clone(est)
                if is_fitted(c):
                    V.append(viol("C19:%s:clone-is-fitted" % name, "clone of the estimator reports fitted (%s, step %d)" % (ctx, i)))
                if params_fp(c) != params_fp(est):
                    V.append(viol("C19:%s:clone-params-differ" % name, "clone parameters %r differ from %r (%s, step %d)" % (params_fp(c), params_fp(est), ctx, i)))
                est = c
                last_fit = None
        except Exception as e:
            kind = op if not op.startswith("fit") else ("fit" if last_fit is None and prev != "clone" else ("fit-of-clone" if prev == "clone" or "clone" in hist[:i] else "refit"))
            V.append(viol("C19:%s:%s-raises-%s" % (name, kind, type(e).__name__), "%s raised %r (%s, step %d)" % (op, e, ctx, i), None, repr(e),
                          "see case: replay the history %r on %s" % (hist, cfg)))
            break
        if est is est_before:
            for k, v in est.get_params(deep=False).items():
                if k in objs_before and v is not objs_before[k]:
                    V.append(viol("C19:%s:param-object-replaced:%s" % (name, k), "%s replaced the constructor argument %r by another object (%s, step %d)" % (op, k, ctx, i)))
        pn = params_fp(est)
        if pn != p0:
            changed = sorted(k for k in p0 if pn.get(k) != p0[k])
            V.append(viol("C19:%s:params-changed:%s" % (name, ",".join(changed)), "get_params changed after %r: %r -> %r (%s)" % (
                hist[:i + 1], {k: p0[k] for k in changed}, {k: pn.get(k) for k in changed}, ctx)))
            p0 = pn  # report each change once
        out["states"].append(jhash([cfg, is_fitted(est), last_fit, pn]))
        prev = op
    out["outcome"] = [cfg, last_fit, len(V)]
    out["classes"] = sorted(out["classes"])
    return out


LEVEL_TEXT = ("The estimator life cycle is explored as an explicit state graph: every history of up to 3 (4) operations over "
              "{fit(D1), fit(D2), predict, pickle, clone} is executed on the real estimator of each class/configuration, and the state "
              "reached is compared with the state reached from the initial state by fit(D) alone (differential oracle, no expected "
              "values). The suite fits every estimator exactly once; refit, fit-after-clone and predict-between-fits are only reachable "
              "by chaining operations.")
LEVEL_NOTE = "Fingerprints are public observations only (get_params, predictions on a probe set, rounded 1e-9; 1e-5 for float32 networks)."
TECHNIQUE = "explicit-state exploration of all operation histories up to a depth bound on the real estimators with a differential oracle"
