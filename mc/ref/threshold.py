"""Reference model for ThresholdOptimizer (C04, C05): brute-force threshold rules and concave envelope."""
import itertools
import math

SIMPLE = {"demographic_parity": "selection_rate", "selection_rate_parity": "selection_rate",
          "false_positive_rate_parity": "false_positive_rate", "true_positive_rate_parity": "true_positive_rate",
          "false_negative_rate_parity": "false_negative_rate", "true_negative_rate_parity": "true_negative_rate"}
OBJ_SIMPLE = ["accuracy_score", "selection_rate", "true_positive_rate", "true_negative_rate", "balanced_accuracy_score"]
OBJ_EO = ["accuracy_score", "balanced_accuracy_score"]


def M(name, y, p):
    """Expected metric of a randomised rule with positive probabilities p on labels y (plain loops)."""
    n = len(y)
    pos = [pi for yi, pi in zip(y, p) if yi == 1]
    neg = [pi for yi, pi in zip(y, p) if yi == 0]
    if name == "selection_rate":
        return sum(p) / n
    if name == "false_positive_rate":
        return sum(neg) / len(neg)
    if name == "true_positive_rate":
        return sum(pos) / len(pos)
    if name == "false_negative_rate":
        return sum(1 - v for v in pos) / len(pos)
    if name == "true_negative_rate":
        return sum(1 - v for v in neg) / len(neg)
    if name == "accuracy_score":
        return (sum(pos) + sum(1 - v for v in neg)) / n
    if name == "balanced_accuracy_score":
        return 0.5 * sum(pos) / len(pos) + 0.5 * sum(1 - v for v in neg) / len(neg)
    raise KeyError(name)


def points(y, s, flip, xm, ym):
    """All deterministic threshold rules of one group -> (constraint value, objective value)."""
    lv = sorted(set(s))
    ths = [-math.inf] + [(a + b) / 2 for a, b in zip(lv, lv[1:])] + [math.inf]
    pts = []
    for t in ths:
        for op in (">", "<") if flip else (">",):
            p = [1.0 if (si > t if op == ">" else si < t) else 0.0 for si in s]
            pts.append((M(xm, y, p), M(ym, y, p)))
    return pts


def env(pts, x):
    """Upper concave envelope at x by brute force over single points and pairs (Caratheodory in the plane)."""
    best = -math.inf
    for (x0, y0) in pts:
        if abs(x0 - x) < 1e-12:
            best = max(best, y0)
    for (x0, y0), (x1, y1) in itertools.combinations(pts, 2):
        if x0 > x1:
            x0, y0, x1, y1 = x1, y1, x0, y0
        if x0 < x < x1:
            best = max(best, y0 + (y1 - y0) * (x - x0) / (x1 - x0))
    return best
