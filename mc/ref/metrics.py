"""Reference models for the metrics family (C01, C02, C03, C11, C18): plain loops, no pandas."""
import math

nan = float("nan")


# ---- spy metrics: the return value identifies exactly which rows the metric was handed -------
def spy_w(y_true, y_pred, w):
    ids = [int(i) for i in y_true]
    if [int(p) for p in y_pred] != [10 * i + 1 for i in ids] or [int(x) for x in w] != [100 * i + 7 for i in ids]:
        return -1.0
    return float(sum(2 ** i for i in ids))


def spy(y_true, y_pred):
    ids = [int(i) for i in y_true]
    if [int(p) for p in y_pred] != [10 * i + 1 for i in ids]:
        return -1.0
    return float(sum(2 ** i for i in ids))


def spy_const(y_true, y_pred):
    return 3.0


def enc(ids):
    return float(sum(2 ** i for i in ids))


def groups_of(cols, n):
    """feature-value tuple -> row ids (plain loops)."""
    rows = {}
    for i in range(n):
        rows.setdefault(tuple(col[i] for col in cols), []).append(i)
    return rows


def as_tuple(t):
    return t if isinstance(t, tuple) else (t,)


def lookup(obj, key):
    """Look up a cell of a Series by label tuple."""
    return obj[key if len(key) > 1 else key[0]]


# ---- aggregates (C02) ----------------------------------------------------------------------
def fmin(vs):
    vs = [v for v in vs if not math.isnan(v)]
    return min(vs) if vs else nan


def fmax(vs):
    vs = [v for v in vs if not math.isnan(v)]
    return max(vs) if vs else nan


def div(a, b):
    """IEEE division as numpy/pandas perform it."""
    if math.isnan(a) or math.isnan(b):
        return nan
    if b == 0:
        if a == 0:
            return nan
        return math.copysign(math.inf, a) * (math.copysign(1.0, b))
    return a / b


def min_r_inv(r):
    """min(r, 1/r) with IEEE conventions."""
    if math.isnan(r):
        return nan
    if math.isinf(r):
        inv = math.copysign(0.0, r)
    elif r == 0:
        inv = math.inf  # the sign of a zero ratio is not part of the statement: 0/x is "0"
    else:
        inv = 1 / r
    return min(r, inv)


def impl_alt_ratio(r):
    """The implementation's documented-elsewhere alternative: 1/r if r > 1 else r."""
    if math.isnan(r):
        return nan
    return 1 / r if r > 1 else r


def ref_aggregates(groups, overall):
    """groups: list of floats (NaN = empty combination); overall: float."""
    g = list(groups)
    out = {}
    out["min"] = fmin(g)
    out["max"] = fmax(g)
    out["diff_b"] = out["max"] - out["min"] if not math.isnan(out["max"]) else nan
    out["diff_o"] = fmax([abs(v - overall) for v in g if not math.isnan(v)])
    out["ratio_b"] = div(out["min"], out["max"])
    out["ratio_o"] = fmin([min_r_inv(div(v, overall)) for v in g])
    out["ratio_o_alt"] = fmin([impl_alt_ratio(div(v, overall)) for v in g])
    return out


# ---- first-principles rates (C03, C11) -----------------------------------------------------
def wrate(name, y, p, w):
    """Weighted rate with the C14 convention (empty denominator -> 0)."""
    tp = fp = fn = tn = 0.0
    for yi, pi, wi in zip(y, p, w):
        if yi == 1 and pi == 1:
            tp += wi
        elif yi == 1:
            fn += wi
        elif pi == 1:
            fp += wi
        else:
            tn += wi
    P, N, T = tp + fn, fp + tn, tp + fp + fn + tn
    if name == "selection_rate":
        return (tp + fp) / T
    if name == "true_positive_rate":
        return tp / P if P else 0.0
    if name == "false_negative_rate":
        return fn / P if P else 0.0
    if name == "false_positive_rate":
        return fp / N if N else 0.0
    if name == "true_negative_rate":
        return tn / N if N else 0.0
    if name == "accuracy_score":
        return (tp + tn) / T
    if name == "zero_one_loss":
        return (fp + fn) / T
    raise KeyError(name)
