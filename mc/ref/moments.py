"""Reference model of the constraint moments (C06, C07, C08, C09): plain loops over rows."""

PARITY = ["DemographicParity", "TruePositiveRateParity", "FalsePositiveRateParity", "EqualizedOdds", "ErrorRateParity"]


def events_of(name, y, c):
    """event name per row (None = the row belongs to no event)."""
    out = []
    for i in range(len(y)):
        if name in ("DemographicParity", "ErrorRateParity"):
            e = "all"
        elif name == "TruePositiveRateParity":
            e = "label=1" if y[i] == 1 else None
        elif name == "FalsePositiveRateParity":
            e = "label=0" if y[i] == 0 else None
        else:
            e = "label=%d" % y[i]
        if e is not None and c is not None:
            e = "control=%s,%s" % (c[i], e)
        out.append(e)
    return out


def utility(name, y, h):
    """u_i: the prediction, or the error indicator for error-rate parity."""
    if name == "ErrorRateParity":
        return [(1 - hi) if yi == 1 else hi for yi, hi in zip(y, h)]
    return list(h)


def ref_index(name, y, a, c):
    ev = events_of(name, y, c)
    pairs = sorted(set((e, g) for e, g in zip(ev, a) if e is not None))
    return [(s, e, g) for s in "+-" for e, g in pairs]


def ref_gamma(name, ratio, y, a, c, h):
    ev = events_of(name, y, c)
    u = utility(name, y, h)
    out = {}
    for e, g in sorted(set((e, g) for e, g in zip(ev, a) if e is not None)):
        ie = [i for i in range(len(y)) if ev[i] == e]
        ig = [i for i in ie if a[i] == g]
        me = sum(u[i] for i in ie) / len(ie)
        mg = sum(u[i] for i in ig) / len(ig)
        out[("+", e, g)] = ratio * mg - me
        out[("-", e, g)] = ratio * me - mg
    return out


def err_rate(y, h, fp=1.0, fn=1.0):
    """cost-weighted (soft) error: fn*(y-h)+ + fp*(h-y)+ averaged."""
    t = 0.0
    for yi, hi in zip(y, h):
        d = yi - hi
        t += fn * d if d > 0 else fp * (-d)
    return t / len(y)


def make_bound(moment_cls, spec):
    kind, val, slack = spec
    if kind == "default":
        return moment_cls(), 1.0, 0.01
    if kind == "diff":
        return moment_cls(difference_bound=val), 1.0, val
    return moment_cls(ratio_bound=val, ratio_bound_slack=slack), val, slack


BOUNDS = [("default", None, None), ("diff", 0.1, None), ("ratio", 1.0, 0.05), ("ratio", 0.8, 0.0), ("ratio", 0.5, 0.05)]
