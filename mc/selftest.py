"""setup_cmd: nothing to build (pure Python); verify the interpreter, the binding to /repo and the check modules."""
import glob
import importlib
import os
import sys

os.environ.setdefault("PYTHONDONTWRITEBYTECODE", "1")
sys.dont_write_bytecode = True
import fairlearn

assert os.path.realpath(fairlearn.__file__).startswith("/repo/"), fairlearn.__file__
root = os.path.dirname(os.path.dirname(os.path.abspath(__file__)))
n = 0
for p in sorted(glob.glob(os.path.join(root, "mc/checks/c*.py"))):
    m = importlib.import_module("mc.checks." + os.path.basename(p)[:-3])
    for attr in ("PROPERTY", "LEVEL", "RULE", "cases", "run_case", "LEVEL_TEXT", "LEVEL_NOTE", "TECHNIQUE"):
        assert hasattr(m, attr), (p, attr)
    n += 1
os.makedirs(os.path.join(root, "evidence"), exist_ok=True)
os.makedirs(os.path.join(root, "replays"), exist_ok=True)
print("selftest ok: %d check modules, fairlearn from %s" % (n, os.path.dirname(fairlearn.__file__)))
